#!/usr/bin/env python3
"""Store a confirmed seeded change under /verif/seeded/<ID>/ (patch, demonstration, meta.json)."""
import json, os, shutil, sys
ID, caught = sys.argv[1], sys.argv[2]
src = "/tmp/seed/%s/_seed" % ID
dst = "/verif/seeded/%s" % ID
os.makedirs(dst, exist_ok=True)
for root, dirs, files in os.walk(src):
    dirs[:] = [d for d in dirs if not d.startswith("_") and d not in ("build",)]
    for f in files:
        if f.endswith((".log",)) and f not in ("ctest_with_change.log",):
            continue
        p = os.path.join(root, f)
        if os.path.getsize(p) > 400000:
            continue
        rel = os.path.relpath(p, src)
        os.makedirs(os.path.dirname(os.path.join(dst, rel)) or dst, exist_ok=True)
        shutil.copy2(p, os.path.join(dst, rel))
meta = {}
try:
    meta = json.load(open(os.path.join(src, "meta.json")))
except Exception as e:
    meta = {"property": ID, "summary": "(agent wrote no valid meta.json: %s)" % e}
meta["produced_by"] = "independent sub-agent given only the property text and a scratch worktree"
meta["what_i_ran"] = {
    "confirmation": "tools/confirm_seed.sh %s: demo.sh with the change, `git apply -R`, demo.sh without it, re-apply, full cmake/ninja build + ctest of the worktree" % ID,
    "confirmation_result": open(os.path.join(src, "confirm.txt")).read() if os.path.exists(os.path.join(src, "confirm.txt")) else "(pending)",
    "checks": "git -C /repo apply seeded/%s/patch.diff; python3 check.py %s --tier quick; git -C /repo checkout -- ." % (ID, ID),
    "check_outcome": caught,
}
json.dump(meta, open(os.path.join(dst, "meta.json"), "w"), indent=1)
print("kept", dst, sorted(os.listdir(dst)))
