// H5 -- StorageProperties model harness (C13).  See DESIGN.md section 4/H5.
//
//   props_harness <seed> <first> <count> [-v]
//
// Random histories of init/set_*/copy/destroy over a pool of 4 objects, checked after every
// call against a C++ value model; allocator events of the code under test are observed through
// link-time wrappers of malloc/realloc/free (exactly-once release); ASan+UBSan watch accesses.
#include "device/props/storage.h"
#include "logger.h"
#include "vcommon.h"

#include <map>
#include <set>
#include <string>
#include <vector>
#include <cstring>

// ---- allocator ledger ---------------------------------------------------------------------
extern "C" {
void* __real_malloc(size_t);
void* __real_realloc(void*, size_t);
void __real_free(void*);
void* __real_calloc(size_t, size_t);
}
static thread_local int t_in_sut;
static std::map<void*, size_t>* g_ledger;
static unsigned long g_allocs, g_frees, g_nviol;
static int g_case_violated;
static vbuf g_log;
static char g_casedesc[96];

static void violation(const char* key, const char* fmt, ...)
{
    char msg[500]; va_list ap; va_start(ap, fmt); vsnprintf(msg, sizeof msg, fmt, ap); va_end(ap);
    int was = t_in_sut; t_in_sut = 0;
    ++g_nviol; g_case_violated = 1;
    printf("V {\"props\":\"C13\",\"key\":\"%s\",\"case\":\"%s\",\"msg\":", key, g_casedesc);
    vjson_str(stdout, msg);
    printf(",\"oplog\":"); vjson_str(stdout, g_log.p ? g_log.p : ""); printf("}\n");
    fflush(stdout);
    t_in_sut = was;
}
extern "C" void __asan_on_error(void)
{
    t_in_sut = 0;
    printf("A {\"props\":\"C13\",\"case\":\"%s\",\"oplog\":", g_casedesc);
    vjson_str(stdout, g_log.p ? g_log.p : ""); printf("}\n");
    fflush(stdout);
}

extern "C" void* __wrap_malloc(size_t n)
{
    void* p = __real_malloc(n);
    if (t_in_sut && p) { t_in_sut = 0; (*g_ledger)[p] = n; ++g_allocs; t_in_sut = 1; }
    return p;
}
extern "C" void* __wrap_calloc(size_t a, size_t b)
{
    void* p = __real_calloc(a, b);
    if (t_in_sut && p) { t_in_sut = 0; (*g_ledger)[p] = a * b; ++g_allocs; t_in_sut = 1; }
    return p;
}
extern "C" void __wrap_free(void* p)
{
    if (t_in_sut && p) {
        t_in_sut = 0;
        auto it = g_ledger->find(p);
        if (it == g_ledger->end()) {
            violation("free-of-unowned-or-freed-block", "free(%p): not a live allocation of the properties code (double free or foreign pointer)", p);
            t_in_sut = 1;
            return; // do not hand it to the allocator: keep the process alive for the witness
        }
        g_ledger->erase(it); ++g_frees;
        t_in_sut = 1;
    }
    __real_free(p);
}
extern "C" void* __wrap_realloc(void* p, size_t n)
{
    if (t_in_sut) {
        t_in_sut = 0;
        if (p) {
            auto it = g_ledger->find(p);
            if (it == g_ledger->end()) {
                violation("realloc-of-unowned-block", "realloc(%p): not a live allocation of the properties code", p);
                t_in_sut = 1;
                return __real_malloc(n);
            }
            g_ledger->erase(it); ++g_frees;
        }
        void* q = __real_realloc(p, n);
        if (q) { (*g_ledger)[q] = n; ++g_allocs; }
        t_in_sut = 1;
        return q;
    }
    return __real_realloc(p, n);
}
#define SUT(e) (t_in_sut = 1, (e))
#define SUT_END() (t_in_sut = 0)

// ---- model ----------------------------------------------------------------------------------
struct MStr { bool present = false; std::string bytes; }; // bytes include the terminator
struct MDim { MStr name; int kind = 0; uint32_t a = 0, b = 0, c = 0; };
struct MProps {
    MStr uri, meta, key, secret;
    uint32_t first_frame_id = 0; PixelScale scale{ 0, 0 }; uint8_t multiscale = 0;
    std::vector<MDim> dims;
};
static MStr stored(const char* p, size_t n)
{
    MStr m; m.present = true;
    if (p && n) { m.bytes.assign(p, n - 1); m.bytes.push_back('\0'); }
    else m.bytes.assign(1, '\0');
    return m;
}

#define NOBJ 4
static StorageProperties g_obj[NOBJ];
static MProps g_model[NOBJ];
static bool g_live[NOBJ];

// ---- input strings ---------------------------------------------------------------------------
struct Input { char* p; size_t n; std::string desc; bool heap; };
static std::vector<char*> g_heap_inputs;
static Input make_input(vrng* g, bool must_terminate, bool nonempty)
{
    Input in{ nullptr, 0, "", false };
    unsigned sel = (unsigned)vrng_below(g, 10);
    if (nonempty && sel < 2) sel = 4;
    if (sel == 0) { in.desc = "NULL,0"; return in; }
    if (sel == 1) { static char e[1] = { 0 }; in.p = e; in.n = vrng_chance(g, 1, 2) ? 1 : 0; in.desc = in.n ? "\"\",1" : "\"\",0"; return in; }
    size_t len; // characters before the terminator
    if (sel < 6) len = (size_t)vrng_range(g, 1, 12);
    else if (sel < 8) len = (size_t)vrng_range(g, 13, 300);
    else if (sel == 8) len = (size_t)vrng_range(g, 301, 5000);
    else len = (size_t)vrng_range(g, 5001, 65536);
    bool unterminated = !must_terminate && vrng_chance(g, 1, 3);
    // exact-size heap block: an over-read of even one byte is an ASan report
    size_t alloc = unterminated ? len : len + 1;
    char* p = (char*)__real_malloc(alloc);
    for (size_t i = 0; i < len; ++i) p[i] = (char)('a' + (vrng_u64(g) % 26));
    if (!unterminated) p[len] = 0;
    g_heap_inputs.push_back(p);
    in.p = p; in.heap = true;
    if (unterminated) in.n = len;                       // last character gets replaced by the terminator
    else in.n = vrng_chance(g, 1, 6) ? len : len + 1;   // sometimes the caller forgets to count the NUL
    char d[64]; snprintf(d, sizeof d, "%s[%zu],%zu", unterminated ? "unterm" : "str", len, in.n);
    in.desc = d;
    return in;
}
static void free_inputs() { for (char* p : g_heap_inputs) __real_free(p); g_heap_inputs.clear(); }

// ---- checks -----------------------------------------------------------------------------------
static unsigned long C_ops, C_copies, C_copy_dims, C_copy_shrink, C_checks, C_histories, C_reset_dim, C_rejected;
static vset g_sigs;

static bool check_str(int i, const char* what, const String& s, const MStr& m, std::set<const void*>& ptrs)
{
    if (!m.present) {
        if (s.str != nullptr || s.nbytes != 0) { violation("string-mismatch", "obj %d %s: expected unset, got nbytes=%zu", i, what, s.nbytes); return false; }
        return true;
    }
    if (!s.str) { violation("string-mismatch", "obj %d %s: NULL string, model has %zu bytes", i, what, m.bytes.size()); return false; }
    if (s.nbytes != m.bytes.size()) { violation("string-length-mismatch", "obj %d %s: nbytes=%zu, expected %zu", i, what, s.nbytes, m.bytes.size()); return false; }
    if (s.nbytes == 0 || s.str[s.nbytes - 1] != '\0') { violation("string-not-terminated", "obj %d %s: str[nbytes-1] != 0", i, what); return false; }
    if (memcmp(s.str, m.bytes.data(), s.nbytes) != 0) { violation("string-content-mismatch", "obj %d %s: content differs from what was set/copied", i, what); return false; }
    if (s.is_ref) { violation("string-not-owned", "obj %d %s: is_ref set on a stored string", i, what); return false; }
    if (!ptrs.insert(s.str).second) { violation("shared-pointer", "obj %d %s shares its buffer with another string", i, what); return false; }
    return true;
}
static void check_all(const char* after)
{
    ++C_checks;
    std::set<const void*> ptrs;
    for (int i = 0; i < NOBJ && !g_case_violated; ++i) {
        if (!g_live[i]) continue;
        const StorageProperties& o = g_obj[i]; const MProps& m = g_model[i];
        if (!check_str(i, "uri", o.uri, m.uri, ptrs)) break;
        if (!check_str(i, "external_metadata_json", o.external_metadata_json, m.meta, ptrs)) break;
        if (!check_str(i, "access_key_id", o.access_key_id, m.key, ptrs)) break;
        if (!check_str(i, "secret_access_key", o.secret_access_key, m.secret, ptrs)) break;
        if (o.first_frame_id != m.first_frame_id || o.pixel_scale_um.x != m.scale.x || o.pixel_scale_um.y != m.scale.y ||
            o.enable_multiscale != m.multiscale) {
            violation("scalar-mismatch", "obj %d after %s: first_frame_id/pixel_scale/multiscale differ from the model", i, after);
            break;
        }
        if (o.acquisition_dimensions.size != m.dims.size()) {
            violation("dimension-count-mismatch", "obj %d after %s: %zu dimensions, expected %zu", i, after, o.acquisition_dimensions.size, m.dims.size());
            break;
        }
        if ((o.acquisition_dimensions.data != nullptr) != (m.dims.size() > 0)) {
            violation("dimension-array-mismatch", "obj %d after %s: data=%p with size %zu", i, after, (void*)o.acquisition_dimensions.data, m.dims.size());
            break;
        }
        if (o.acquisition_dimensions.data && !ptrs.insert(o.acquisition_dimensions.data).second) {
            violation("shared-pointer", "obj %d after %s: dimension array shared with another object", i, after);
            break;
        }
        for (size_t d = 0; d < m.dims.size() && !g_case_violated; ++d) {
            const StorageDimension& od = o.acquisition_dimensions.data[d]; const MDim& md = m.dims[d];
            char w[32]; snprintf(w, sizeof w, "dim[%zu].name", d);
            if (!check_str(i, w, od.name, md.name, ptrs)) break;
            if ((int)od.kind != md.kind || od.array_size_px != md.a || od.chunk_size_px != md.b || od.shard_size_chunks != md.c)
                violation("dimension-field-mismatch", "obj %d after %s: dim %zu fields differ", i, after, d);
        }
    }
}

struct Snapshot { StorageProperties raw; std::vector<StorageDimension> dims; };
static Snapshot snap(const StorageProperties& o)
{
    Snapshot s; memcpy(&s.raw, &o, sizeof o);
    if (o.acquisition_dimensions.data) s.dims.assign(o.acquisition_dimensions.data, o.acquisition_dimensions.data + o.acquisition_dimensions.size);
    return s;
}
static bool same_snapshot(const Snapshot& s, const StorageProperties& o)
{
    // field-wise (padding bytes are not part of the value)
    auto eqs = [](const String& a, const String& b) { return a.str == b.str && a.nbytes == b.nbytes && a.is_ref == b.is_ref; };
    if (!eqs(s.raw.uri, o.uri) || !eqs(s.raw.external_metadata_json, o.external_metadata_json) ||
        !eqs(s.raw.access_key_id, o.access_key_id) || !eqs(s.raw.secret_access_key, o.secret_access_key)) return false;
    if (s.raw.acquisition_dimensions.data != o.acquisition_dimensions.data || s.raw.acquisition_dimensions.size != o.acquisition_dimensions.size) return false;
    for (size_t d = 0; d < s.dims.size(); ++d) {
        const StorageDimension &a = s.dims[d], &b = o.acquisition_dimensions.data[d];
        if (!eqs(a.name, b.name) || a.kind != b.kind || a.array_size_px != b.array_size_px || a.chunk_size_px != b.chunk_size_px ||
            a.shard_size_chunks != b.shard_size_chunks) return false;
    }
    return true;
}

// ---- one history ---------------------------------------------------------------------------------
static void run_history(uint64_t seed, unsigned long icase, int verbose)
{
    vrng g; vrng_seed(&g, seed, 0x13, icase);
    int nops = (int)vrng_range(&g, 20, 80);
    int dim_bias = (int)vrng_below(&g, 3); // 0: few dims, 1: mixed, 2: dims almost always
    vbuf_reset(&g_log);
    snprintf(g_casedesc, sizeof g_casedesc, "%llu %lu 1", (unsigned long long)seed, icase);
    g_case_violated = 0;
    g_ledger->clear();
    for (int i = 0; i < NOBJ; ++i) { g_live[i] = false; g_model[i] = MProps(); memset(&g_obj[i], 0, sizeof g_obj[i]); }
    uint64_t sig = vhash_init();
    for (int step = 0; step < nops && !g_case_violated; ++step) {
        int i = (int)vrng_below(&g, NOBJ);
        unsigned op = (unsigned)vrng_below(&g, 100);
        ++C_ops;
        if (!g_live[i]) {
            // init
            Input u = make_input(&g, false, false), md = make_input(&g, false, false);
            uint32_t ffid = (uint32_t)vrng_below(&g, 1000);
            PixelScale ps{ (double)vrng_below(&g, 50) / 4.0, (double)vrng_below(&g, 50) / 8.0 };
            uint8_t nd = dim_bias == 0 ? (vrng_chance(&g, 1, 4) ? (uint8_t)vrng_range(&g, 1, 3) : 0)
                                        : (vrng_chance(&g, dim_bias == 2 ? 9 : 1, dim_bias == 2 ? 10 : 2) ? (uint8_t)vrng_range(&g, 1, 6) : 0);
            vbuf_printf(&g_log, "init(%d,uri=%s,meta=%s,dims=%u) ", i, u.desc.c_str(), md.desc.c_str(), nd);
            int ok = SUT(storage_properties_init(&g_obj[i], ffid, u.p, u.n, md.p, md.n, ps, nd)); SUT_END();
            if (!ok) { violation("init-failed", "storage_properties_init returned 0"); break; }
            MProps m; m.uri = stored(u.p, u.n); m.meta = stored(md.p, md.n); m.first_frame_id = ffid; m.scale = ps; m.dims.resize(nd);
            g_model[i] = m; g_live[i] = true;
            sig = vhash_add(sig, 1 + nd);
            check_all("init");
            continue;
        }
        if (op < 12) {
            Input u = make_input(&g, false, false);
            vbuf_printf(&g_log, "set_uri(%d,%s) ", i, u.desc.c_str());
            int ok = SUT(storage_properties_set_uri(&g_obj[i], u.p, u.n)); SUT_END();
            if (!ok) { violation("setter-failed", "set_uri returned 0"); break; }
            g_model[i].uri = stored(u.p, u.n);
            sig = vhash_add(sig, 20); check_all("set_uri");
        } else if (op < 22) {
            Input u = make_input(&g, false, false);
            vbuf_printf(&g_log, "set_meta(%d,%s) ", i, u.desc.c_str());
            int ok = SUT(storage_properties_set_external_metadata(&g_obj[i], u.p, u.n)); SUT_END();
            if (!ok) { violation("setter-failed", "set_external_metadata returned 0"); break; }
            g_model[i].meta = stored(u.p, u.n);
            sig = vhash_add(sig, 21); check_all("set_external_metadata");
        } else if (op < 30) {
            Input a = make_input(&g, false, false), b = make_input(&g, false, false);
            vbuf_printf(&g_log, "set_keys(%d,%s,%s) ", i, a.desc.c_str(), b.desc.c_str());
            int ok = SUT(storage_properties_set_access_key_and_secret(&g_obj[i], a.p, a.n, b.p, b.n)); SUT_END();
            if (!ok) { violation("setter-failed", "set_access_key_and_secret returned 0"); break; }
            g_model[i].key = stored(a.p, a.n); g_model[i].secret = stored(b.p, b.n);
            sig = vhash_add(sig, 22); check_all("set_access_key_and_secret");
        } else if (op < 55) {
            size_t nd = g_model[i].dims.size();
            int idx = nd && !vrng_chance(&g, 1, 10) ? (int)vrng_below(&g, nd) : (int)vrng_range(&g, 0, 8) - 1;
            Input nm = make_input(&g, true, true);
            int kind = vrng_chance(&g, 1, 12) ? (int)DimensionTypeCount + (int)vrng_below(&g, 3) : (int)vrng_below(&g, DimensionTypeCount);
            uint32_t a = (uint32_t)vrng_below(&g, 5000), b = (uint32_t)vrng_below(&g, 500), c = (uint32_t)vrng_below(&g, 10);
            bool valid = idx >= 0 && (size_t)idx < nd && nm.p && nm.n > 0 && strlen(nm.p) > 0 && kind < (int)DimensionTypeCount;
            vbuf_printf(&g_log, "set_dim(%d,[%d/%zu],%s,kind=%d)%s ", i, idx, nd, nm.desc.c_str(), kind, valid ? "" : "!");
            bool had = valid && g_model[i].dims[(size_t)idx].name.present;
            int ok = SUT(storage_properties_set_dimension(&g_obj[i], idx, nm.p, nm.n, (DimensionType)kind, a, b, c)); SUT_END();
            if (valid) {
                if (!ok) { violation("setter-failed", "set_dimension returned 0 for valid arguments"); break; }
                MDim& d = g_model[i].dims[(size_t)idx];
                d.name = stored(nm.p, nm.n); d.kind = kind; d.a = a; d.b = b; d.c = c;
                if (had) ++C_reset_dim;
            } else {
                ++C_rejected;
                if (ok) { violation("invalid-dimension-accepted", "set_dimension accepted index %d of %zu / kind %d", idx, nd, kind); break; }
            }
            sig = vhash_add(sig, 23 + (valid ? 0 : 100)); check_all("set_dimension");
        } else if (op < 60) {
            uint8_t e = (uint8_t)vrng_below(&g, 2);
            vbuf_printf(&g_log, "multiscale(%d,%u) ", i, e);
            SUT(storage_properties_set_enable_multiscale(&g_obj[i], e)); SUT_END();
            g_model[i].multiscale = e;
            sig = vhash_add(sig, 24); check_all("set_enable_multiscale");
        } else if (op < 90) {
            int j = -1, cnt = 0;
            for (int k = 0; k < NOBJ; ++k) if (k != i && g_live[k]) ++cnt;
            if (!cnt) continue;
            int pick = (int)vrng_below(&g, (uint64_t)cnt);
            for (int k = 0; k < NOBJ; ++k) if (k != i && g_live[k] && pick-- == 0) { j = k; break; }
            // copy j -> i
            vbuf_printf(&g_log, "copy(%d<-%d;dims %zu<-%zu) ", i, j, g_model[i].dims.size(), g_model[j].dims.size());
            Snapshot before = snap(g_obj[j]);
            int ok = SUT(storage_properties_copy(&g_obj[i], &g_obj[j])); SUT_END();
            ++C_copies;
            if (g_model[j].dims.size()) ++C_copy_dims;
            if (g_model[i].dims.size() > g_model[j].dims.size()) ++C_copy_shrink;
            if (!ok) { violation("copy-failed", "storage_properties_copy returned 0"); break; }
            if (!same_snapshot(before, g_obj[j])) { violation("copy-modified-source", "source object changed by copy"); break; }
            // destination takes the source's value; unset strings become empty strings
            MProps m = g_model[j];
            for (MStr* s : { &m.uri, &m.meta, &m.key, &m.secret }) if (!s->present) *s = stored(nullptr, 0);
            for (MDim& d : m.dims) if (!d.name.present) d.name = stored(nullptr, 0);
            g_model[i] = m;
            sig = vhash_add(sig, 30 + g_model[j].dims.size()); check_all("copy");
        } else {
            vbuf_printf(&g_log, "destroy(%d) ", i);
            SUT(storage_properties_destroy(&g_obj[i])); SUT_END();
            g_live[i] = false;
            sig = vhash_add(sig, 40); check_all("destroy");
        }
    }
    // wind down: destroy everything, then every allocation must have been released exactly once
    for (int i = 0; i < NOBJ && !g_case_violated; ++i)
        if (g_live[i]) { vbuf_printf(&g_log, "destroy(%d) ", i); SUT(storage_properties_destroy(&g_obj[i])); SUT_END(); g_live[i] = false; }
    if (!g_case_violated && !g_ledger->empty()) {
        size_t bytes = 0; for (auto& kv : *g_ledger) bytes += kv.second;
        violation("allocation-never-released", "%zu allocation(s) (%zu bytes) of the properties code still live after every object was destroyed",
                  g_ledger->size(), bytes);
    }
    if (g_case_violated) {
        // release what the broken history left behind so that later histories start clean
        for (auto& kv : *g_ledger) (void)kv;
        g_ledger->clear();
    }
    free_inputs();
    ++C_histories;
    vset_add(&g_sigs, sig);
    if ((verbose || icase % 4999 == 0) && !g_case_violated) {
        printf("H {\"case\":\"%s\",\"oplog\":", g_casedesc); vjson_str(stdout, g_log.p); printf("}\n");
    }
}

static void quiet(int, const char*, int, const char*, const char*) {}

int main(int argc, char** argv)
{
    if (argc < 4) { fprintf(stderr, "usage: %s seed first count [-v]\n", argv[0]); return 2; }
    uint64_t seed = strtoull(argv[1], 0, 10);
    unsigned long first = strtoul(argv[2], 0, 10), count = strtoul(argv[3], 0, 10);
    int verbose = argc > 4;
    logger_set_reporter(quiet);
    g_ledger = new std::map<void*, size_t>();
    vset_init(&g_sigs, 1 << 14);
    setvbuf(stdout, 0, _IOFBF, 1 << 16);
    for (unsigned long c = first; c < first + count; ++c) {
        run_history(seed, c, verbose);
        if (g_nviol > 20) break;
    }
    printf("S {\"cases\":%lu,\"violations\":%lu,\"ops\":%lu,\"copies\":%lu,\"copies_from_source_with_dims\":%lu,"
           "\"copies_shrinking_dims\":%lu,\"dimension_resets\":%lu,\"rejected_set_dimension\":%lu,\"state_checks\":%lu,"
           "\"allocations\":%lu,\"frees\":%lu,\"distinct_histories\":%zu}\n",
           C_histories, g_nviol, C_ops, C_copies, C_copy_dims, C_copy_shrink, C_reset_dim, C_rejected, C_checks, g_allocs, g_frees, g_sigs.n);
    const char* hp = getenv("VERIF_HASH_OUT");
    if (hp) vset_dump(&g_sigs, hp);
    fflush(stdout);
    return 0;
}
