"""H1 -- channel harness orchestration (C01, C02, C03)."""
import os
import shutil
import sys

sys.path.insert(0, os.path.dirname(os.path.dirname(os.path.abspath(__file__))))
import build
from lib import vlib

PLANS = {
    # (mode, flavour, workers, cases per worker, ops)
    ("C01", "quick"): [("modeA", "asan", 16, 8000, 0), ("stress", "asan", 8, 8, 2500), ("window", "asan", 2, 500, 0)],
    ("C01", "thorough"): [("modeA", "asan", 16, 120000, 0), ("stress", "asan", 16, 120, 4000),
                          ("stress", "tsan", 8, 40, 3000), ("window", "asan", 4, 5000, 0)],
    ("C02", "quick"): [("modeA", "asan", 16, 8000, 0), ("stress", "asan", 6, 8, 2500), ("stress", "tsan", 6, 8, 2000)],
    ("C02", "thorough"): [("modeA", "asan", 16, 120000, 0), ("stress", "asan", 16, 120, 4000),
                          ("stress", "tsan", 16, 80, 3000)],
    ("C03", "quick"): [("window", "asan", 8, 1500, 0), ("modeA", "asan", 12, 5000, 0), ("stress", "tsan", 6, 8, 2000)],
    ("C03", "thorough"): [("window", "asan", 16, 40000, 0), ("modeA", "asan", 16, 60000, 0),
                          ("stress", "tsan", 16, 80, 3000), ("stress", "asan", 8, 60, 4000)],
}

RULES = {
    "C01": "Mode A: seeded random histories (50-400 steps; capacity 8..4096 biased tiny; 1..8 readers joining at any "
           "step; write sizes incl. 0, cap-1, exactly-free; commit/abort; partial/over consumption; accept/refuse toggles) "
           "executed op by op by a controller thread + a writer thread parked at the interposed wait, checked against a "
           "byte-stream reference model after every call. Non-trivial = history with >=1 wrap AND >=2 readers of which "
           "one was a lap behind; distinct by hash of the operation sequence. Stress runs (free-running 1 writer + 1..7 "
           "readers + toggler) count as non-trivial when the ring lapped >2 times with >=2 readers.",
    "C02": "same executions as C01; the oracle is interval arithmetic on the address returned by every write_map "
           "against mapped reader slices and unconsumed committed bytes, snapshot/compare of every mapped slice, and "
           "ThreadSanitizer on the free-running mode. Non-trivial/distinct as for C01.",
    "C03": "window cases: writer parked inside the interposed condition_variable_wait (lock held, predicate evaluated) "
           "while a second thread issues a consuming read_unmap or accept_writes(0); verdict from logical conditions "
           "(racer finished / queued on the lock) plus a probe notification. Distinct by (capacity, sizes, racing op, "
           "readers). Mode A adds: every sleeping writer must return once all readers drained / writes refused, every "
           "toggle and consuming unmap must notify, drain bounded by 3 calls.",
}


def _exe(flavour):
    return build.build_chan(flavour)


def run(prop, tier, replay=None):
    chk = vlib.Check(prop, tier)
    seed = chk.seed
    if replay:
        return _replay(chk, replay)
    plan = PLANS[(prop, tier)]
    exes = {fl: _exe(fl) for fl in sorted({p[1] for p in plan})}
    tmp = os.path.join(build.CACHE, "tmp", "chan-%s-%d" % (prop, os.getpid()))
    os.makedirs(tmp, exist_ok=True)
    workers = []
    for (mode, fl, nw, per, ops) in plan:
        sub = vlib.splitmix(seed, prop, mode, fl) % (1 << 31)
        for w in range(nw):
            cmd = [exes[fl], mode, sub, w * per, per]
            if mode == "stress":
                cmd.append(ops)
            hp = os.path.join(tmp, "%s-%s-%d.hash" % (mode, fl, w))
            wk = vlib.Worker(cmd, (mode, fl, w), timeout=3000 if tier == "thorough" else 900,
                             env={"VERIF_HASH_OUT": hp, "VERIF_PROP": prop})
            wk.hash_path = hp
            workers.append(wk)
    vlib.run_pool(workers)
    # one automatic re-run for watchdog / timeouts
    again = [wk for wk in workers if wk.timed_out or wk.rc == 3]
    for wk in again:
        chk.notes.append("re-running %s after watchdog" % (wk.tag,))
    vlib.run_pool(again)
    summaries, nviol_other = [], {}
    for wk in workers:
        mode, fl, w = wk.tag
        for v in wk.records("V"):
            props = v.get("props", "").split(",")
            rep = {"cmd": [os.path.relpath(wk.cmd[0], vlib.VERIF), v["mode"], v["seed"], v["case"], 1] +
                          ([wk.cmd[5]] if mode == "stress" else []) + ["-v"],
                   "flavour": fl, "oplog": v.get("oplog", "")[-3000:]}
            if prop in props:
                chk.violation(v["key"], v["msg"], rep)
            else:
                nviol_other[v["key"]] = nviol_other.get(v["key"], 0) + 1
        san = vlib.sanitizer_report(wk.err)
        if san:
            kind, top, excerpt = san
            # a race on the accept flag is C03's; any other race/overflow in channel.c is C01/C02's
            mine = {"C03"} if "channel_accept_writes" in top else {"C01", "C02"}
            if kind.startswith("asan") or kind.startswith("ubsan"):
                mine = {"C01", "C02", "C03"}
            rep = {"cmd": [os.path.relpath(wk.cmd[0], vlib.VERIF)] + wk.cmd[1:], "flavour": fl, "report": excerpt}
            if prop in mine:
                chk.violation("%s:%s" % (kind, top), "%s in %s (mode %s)" % (kind, top, mode), rep)
            else:
                nviol_other["%s:%s" % (kind, top)] = 1
        elif wk.timed_out or wk.rc == 3:
            chk.fail("worker %s hung (watchdog) twice: %s" % (wk.tag, (wk.records("X") or [wk.err[-300:]])[-1]))
        elif wk.rc == 4 and wk.records("V"):
            pass  # stress mode exits right after reporting a violation
        elif wk.rc != 0:
            rep = {"cmd": [os.path.relpath(wk.cmd[0], vlib.VERIF)] + wk.cmd[1:], "flavour": fl, "stderr": wk.err[-2000:]}
            chk.violation("crash:rc%d" % wk.rc, "harness process died rc=%d in mode %s" % (wk.rc, mode), rep)
        ss = wk.records("S")
        if ss:
            summaries.append(ss[-1])
        elif wk.rc == 0:
            chk.fail("worker %s produced no summary" % (wk.tag,))
        if wk.rc == 4:
            summaries.append({"mode": mode, "cases": 1})
        for h in wk.records("H")[:1]:
            if len(chk.samples) < 6:
                chk.samples.append(h)
    tot = vlib.merge_counts(summaries, skip=("seed", "first", "n", "abstract_states", "distinct_histories"))
    hashes = {}
    for wk in workers:
        hashes.setdefault(wk.tag[0], []).append(wk.hash_path)
    distinct = {m: len(vlib.read_hashes(ps)) for m, ps in hashes.items()}
    shutil.rmtree(tmp, ignore_errors=True)
    if nviol_other:
        chk.notes.append("violations of other properties seen in passing (decided by their own checks): %s" % nviol_other)
        print("NOTE other-property observations: %s" % nviol_other)
    evaluations = int(tot.get("cases", 0))
    if prop == "C03":
        dn = distinct.get("window", 0)
        need = [("window_cases", 1), ("resumed_after_release", 1), ("resumed_null_after_refuse", 1)]
    else:
        dn = distinct.get("modeA", 0) + int(sum(s.get("nontrivial_distinct", 0) for s in summaries if s.get("mode") == "stress"))
        need = [("wraps_over_lagging_reader", 1), ("wraps_all_caught_up", 1), ("partial_unmaps", 1),
                ("lapcross_reads", 1), ("writer_sleeps", 1)]
    for k, mn in need:
        if tot.get(k, 0) < mn:
            chk.fail("required event class never observed: %s" % k)
    chk.coverage = {"events": tot, "distinct_by_mode": distinct,
                    "abstract_states_max_per_worker": max([s.get("abstract_states", 0) for s in summaries] or [0]),
                    "plan": [list(p) for p in plan]}
    chk.assumptions = ["pthread mutex/condvar primitives are fair and correct",
                       "channel operations other than the interposed wait are atomic under the channel lock "
                       "(so sequential orders of operations are the interleavings); TSan/ASan stress checks that assumption",
                       "well-formed use: one writer; map -> unmap|abort pairs; at most 8 readers"]
    return chk.finish(evaluations, dn, RULES[prop])


def _replay(chk, path):
    import json
    rec = json.load(open(path))
    r = rec["replay"]
    cmd = list(r["cmd"])
    fl = r.get("flavour", "asan")
    cmd[0] = _exe(fl)
    wk = vlib.Worker(cmd, "replay", timeout=600).run()
    sys.stdout.write(wk.out[-6000:])
    sys.stderr.write(wk.err[-6000:])
    hit = [v for v in wk.records("V") if chk.prop in v.get("props", "").split(",")]
    if hit or vlib.sanitizer_report(wk.err):
        print("VIOLATION property=%s replay=%s" % (chk.prop, path))
        return 1
    print("replay: no violation reproduced")
    return 0
