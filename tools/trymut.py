#!/usr/bin/env python3
"""Apply a textual mutation to /repo (file, old, new), run the given checks (quick), revert.
usage: trymut.py <file-rel-to-repo> <old> <new> <ID> [<ID>...]   (old/new: literal strings, \\n allowed)
   or: trymut.py --patch <patch.diff> <ID>...
Always reverts with `git -C /repo checkout -- .`"""
import subprocess, sys, os
args = sys.argv[1:]
try:
    if args[0] == "--patch":
        patch, ids = args[1], args[2:]
        subprocess.check_call(["git", "-C", "/repo", "apply", patch])
    else:
        f, old, new, ids = args[0], args[1].encode().decode("unicode_escape"), args[2].encode().decode("unicode_escape"), args[3:]
        p = os.path.join("/repo", f); s = open(p).read()
        assert s.count(old) >= 1, "pattern not found"
        open(p, "w").write(s.replace(old, new, 1))
    for i in ids:
        tier = os.environ.get("VERIF_TIER", "quick")
        r = subprocess.run(["python3", "/verif/check.py", i, "--tier", tier], capture_output=True, text=True)
        lines = [l for l in r.stdout.splitlines() if l.startswith(("VIOLATION", "  key", "OK", "INCONCLUSIVE", "KNOWN", "NOTE"))]
        print("== %s rc=%d" % (i, r.returncode)); print("\n".join(lines[:12]))
        if r.returncode == 2: print(r.stdout[-1500:], r.stderr[-1500:])
finally:
    subprocess.call(["git", "-C", "/repo", "checkout", "--", "."])
