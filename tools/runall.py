#!/usr/bin/env python3
"""Run every registered check (quick by default) sequentially; print a one-line summary each."""
import json, os, subprocess, sys, time
V = os.path.dirname(os.path.dirname(os.path.abspath(__file__)))
m = json.load(open(os.path.join(V, "MANIFEST.json")))
tier = sys.argv[1] if len(sys.argv) > 1 else "quick"
only = sys.argv[2:]
bad = 0
for c in m["checks"]:
    if only and c["property_id"] not in only:
        continue
    cmd = c["quick_cmd"] if tier == "quick" else c["thorough_cmd"]
    t0 = time.time()
    r = subprocess.run(cmd, shell=True, cwd=V, capture_output=True, text=True)
    last = [l for l in r.stdout.splitlines() if l.startswith(("OK", "VIOLATION", "INCONCLUSIVE", "KNOWN"))]
    print("%s rc=%d %.0fs %s" % (c["property_id"], r.returncode, time.time() - t0, " | ".join(last[:3])[:200]), flush=True)
    if r.returncode != 0:
        bad += 1
        print(r.stdout[-1500:], r.stderr[-800:])
sys.exit(1 if bad else 0)
