"""H7 -- simulated-camera harness orchestration (C17, C18)."""
import os
import shutil
import sys

sys.path.insert(0, os.path.dirname(os.path.dirname(os.path.abspath(__file__))))
import build
from lib import vlib

RULES = {
    "C17": "seeded cases: camera kind x sequences 'set (start get_frame* stop)* set ...' with binning {1,2,4,8} (and rejected "
           "0->1/3), all 8 sample types, shapes from {1, 31..33, 63..65, odd, 100..700, 8192, >8192, 0, small} per axis, "
           "offsets, exposure 50-500 us. Oracle: ASan+UBSan on the real streamer/binning/fill code; get_shape == request "
           "clamped to [1, 8192/binning] with strides (1,1,w,w*h); get() reads back the values in effect; get_frame gets an "
           "exact-size heap block pre-filled with a per-call pattern and over >=6 frames every image byte must have been "
           "overwritten at least once; a third of the configurations use the software trigger (one trigger per frame call), a "
           "quarter of the runs apply the settings again while live (trigger-enabled runs may end with a live set of another "
           "region followed by one more triggered frame of the new size), runs are repeated without a set in between. "
           "Non-trivial = case that streamed frames; distinct by (binning, type, clamped shape) "
           "sequence hash. One sanitizer report ends a worker; it is restarted behind the failing case.",
    "C18": "seeded cases: 3-6 start/stop runs per camera with a consumer thread (get_frame loop), a trigger thread (paced "
           "or bursts) and the stopping thread; software trigger on/off per run, reconfiguration between runs incl. "
           "enable->disable->enable, a quarter of the later runs started again without any set, a fifth of the runs with the same settings applied again while live (also right before the stop), a quarter of the free-running consumers still taking frames when the stop comes; random delays injected at the camera's own lock/wait/sleep calls. Oracle: ids strictly "
           "increase within a run; with triggering: frames delivered <= triggers issued (counter bumped before the call), "
           "no frame with zero triggers, id < triggers issued since start (ids count generated frames and restart at 0); "
           "(free-running ids far ahead of elapsed/exposure are counted as information only); stop returns and releases a pending get_frame "
           "(30 s watchdog, re-run once). Distinct by (trigger mode sequence, pending-at-stop, reconfigurations).",
}


def _exe(flavour="asan"):
    return build.build_simcam(flavour)


def run(prop, tier, replay=None):
    chk = vlib.Check(prop, tier)
    exe = _exe()
    if replay:
        return vlib.generic_replay(chk, replay, lambda _: exe)
    tmp = os.path.join(build.CACHE, "tmp", "simcam-%s-%d" % (prop, os.getpid()))
    os.makedirs(tmp, exist_ok=True)
    sub = vlib.splitmix(chk.seed, prop) % (1 << 31)
    mode = "shape" if prop == "C17" else "stream"
    plan = []  # (first, count, extra args, parallel slot weight)
    if prop == "C17":
        per = 400 if tier == "quick" else 6000
        for w in range(16):
            plan.append((w * per, per, [1 << 20]))
        if tier == "thorough":
            for w in range(6):  # large renders, up to the maximal 8192x8192
                plan.append((1000000 + w * 12, 12, [1 << 26]))
    else:
        per = 250 if tier == "quick" else 6000
        for w in range(16):
            plan.append((w * per, per, []))
    workers = []
    hashes = []
    all_workers = []

    def mk(first, count, extra, idx):
        hp = os.path.join(tmp, "%d-%d.hash" % (idx, first))
        wk = vlib.Worker([exe, mode, sub, first, count] + extra, (mode, idx, first), timeout=3000 if tier == "thorough" else 900,
                         env={"VERIF_HASH_OUT": hp})
        wk.case_is_args = True
        wk.span = (first, count, extra, idx)
        hashes.append(hp)
        return wk

    workers = [mk(f, c, e, i) for i, (f, c, e) in enumerate(plan)]
    rounds = 0
    while workers and rounds < 6:
        rounds += 1
        vlib.run_pool(workers)
        vlib.rerun_hung(chk, workers)
        all_workers += workers
        nxt = []
        for wk in workers:
            # a sanitizer report / crash ends the process at some case: resume behind it
            if wk.rc not in (0, 4, 5) and not wk.timed_out:
                wit = (wk.records("A") or wk.records("X") or [{}])[-1]
                case = str(wit.get("case", ""))
                parts = case.split()
                if len(parts) >= 3 and parts[2].isdigit():
                    failed = int(parts[2])
                    first, count, extra, idx = wk.span
                    rest = first + count - (failed + 1)
                    if rest > 0 and len(chk.violations) < 40:
                        nxt.append(mk(failed + 1, rest, extra, idx))
        workers = nxt
    # a hang (rc 5) is believed only when it repeats from a fresh process
    hung = [wk for wk in all_workers if wk.rc == 5]
    confirms = []
    for wk in hung[:4]:
        wit = (wk.records("X") or [{}])[-1]
        parts = str(wit.get("case", "")).split()
        if len(parts) >= 3:
            # a hang that needs a narrow interleaving does not come back every time: several fresh attempts per case
            for k in range(8):
                c = mk(int(parts[2]), 1, wk.span[2], 900 + 10 * wk.span[3] + k)
                c.origin = wk
                confirms.append(c)
    for i in range(0, len(confirms), 16):  # stop as soon as one attempt hangs again
        vlib.run_pool(confirms[i:i + 16])
        if any(c.rc == 5 for c in confirms[i:i + 16]):
            confirms = confirms[:i + 16]
            break
    reproduced = any(c.rc == 5 for c in confirms)
    if hung:
        chk.notes.append("%d hung case(s) re-run in %d fresh processes: %d hung again" % (min(len(hung), 4), len(confirms), sum(1 for c in confirms if c.rc == 5)))
    if hung and not reproduced:
        for wk in hung:
            wk.out = "\n".join(l for l in wk.out.splitlines() if "hang" not in l and "not-released" not in l)
        chk.fail("%d %s hang(s) did not reproduce on re-run" % (len(hung), mode))
    summaries, _ = vlib.collect(chk, all_workers, prop, ok_rcs=(0, 4, 5))
    tot = vlib.merge_counts(summaries, skip=("distinct",))
    distinct = len(vlib.read_hashes(hashes))
    shutil.rmtree(tmp, ignore_errors=True)
    need = ["cases_with_binning", "clamped_requests", "max_shape_requests", "reconfigurations", "frames", "rejected_sets", "live_sets", "live_resizes"] if prop == "C17" \
        else ["trigger_runs", "stops_with_pending_get_frame", "restart_checks", "restarts_without_set", "live_sets", "timebound_checks", "frames", "failed_frame_calls"]
    for k in need:
        if not tot.get(k):
            chk.fail("required event class never observed: %s" % k)
    chk.coverage = {"events": tot, "worker_restarts_after_reports": len(all_workers) - len(plan)}
    chk.assumptions = (["configuration is applied only while the camera is stopped (as the runtime does)",
                        "built with -mavx2 like the repository (AVX2 bin2); ASan red zones bound what an overflow can hit unnoticed"]
                       if prop == "C17" else
                       ["ThreadSanitizer reports on the camera's deliberately unsynchronised run flags are not part of the verdict",
                        "a hang of stop/get_frame is believed only when it repeats from a fresh process",
                        "the restart of the frame count is decided in trigger mode only (id < triggers issued since start)"])
    return chk.finish(int(tot.get("cases", 0)), distinct, RULES[prop])


def build_jobs():
    return [lambda: build.build_simcam("asan")]
