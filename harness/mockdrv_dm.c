// Mock optional drivers for H4 (C12).  Built several times with -DMOCK_VARIANT=<n>.
//   1..5 device tables with odd/overlapping names   6 init returns NULL   7 no entry point
#include "device/kit/driver.h"
#include "device/kit/camera.h"
#include "device/kit/storage.h"
#include <stdlib.h>
#include <string.h>
#include <stdio.h>
#include <stddef.h>

#ifndef MOCK_VARIANT
#define MOCK_VARIANT 1
#endif

struct entry { enum DeviceKind kind; const char* name; int describe_fails; };

#if MOCK_VARIANT == 1
static const struct entry k_tab[] = {
    { DeviceKind_Camera, "Simulated: Uniform Random", 0 }, // same as the common driver's, other case
    { DeviceKind_Camera, "cam.A", 0 },
    { DeviceKind_Camera, "camXA", 0 },
    { DeviceKind_Camera, "cam(1)", 0 },
    { DeviceKind_Camera, "C++ camera [x]", 0 },
    { DeviceKind_Storage, "RAW", 0 },
    { DeviceKind_Storage, "tiff", 0 },
    { DeviceKind_Storage, "Trash Can", 0 },
};
#elif MOCK_VARIANT == 2
static const struct entry k_tab[] = {
    { DeviceKind_Storage, "Zarr", 0 },
    { DeviceKind_Storage, "ZarrBlosc1ZstdByteShuffle", 0 },
    { DeviceKind_Storage, "zarr v3", 0 },
    { DeviceKind_Storage, "a|b", 0 },
    { DeviceKind_Storage, "^weird$", 0 },
    { DeviceKind_Storage, "tiff-json", 0 },
    { DeviceKind_Storage, "back\\slash", 0 },
    { DeviceKind_Camera, "zarr", 0 }, // a camera named like a storage device
};
#elif MOCK_VARIANT == 3
static char k_long[256];
static const struct entry k_tab[] = {
    { DeviceKind_Camera, k_long, 0 },    // 255 characters
    { DeviceKind_Camera, "", 0 },        // empty name
    { DeviceKind_Camera, "x", 0 },
    { DeviceKind_Storage, "{braces}", 0 },
    { DeviceKind_Storage, "star*", 0 },
    { DeviceKind_Storage, "q?", 0 },
};
#elif MOCK_VARIANT == 4
static const struct entry k_tab[] = {
    { DeviceKind_Camera, "spin one", 0 },
    { DeviceKind_Camera, "spin broken", 1 }, // describe() fails for this index
    { DeviceKind_Camera, "spin two", 0 },
    { DeviceKind_StageAxis, "stage x", 0 },
    { DeviceKind_Signals, "daq", 0 },
    { DeviceKind_Storage, "spin store", 0 },
};
#else
static const struct entry k_tab[] = { { DeviceKind_None, "", 0 } };
#endif

#if MOCK_VARIANT == 5 || MOCK_VARIANT == 6 || MOCK_VARIANT == 7
#define N_DEV 0
#else
#define N_DEV (sizeof(k_tab) / sizeof(k_tab[0]))
#endif

static uint32_t m_count(struct Driver* d) { (void)d; return (uint32_t)N_DEV; }
static enum DeviceStatusCode m_describe(const struct Driver* d, struct DeviceIdentifier* id, uint64_t i)
{
    (void)d;
    if (i >= N_DEV || k_tab[i].describe_fails) return Device_Err;
    memset(id, 0, sizeof *id);
    id->device_id = (uint8_t)i; id->kind = k_tab[i].kind;
    strncpy(id->name, k_tab[i].name, sizeof id->name - 1);
    return Device_Ok;
}
static enum DeviceStatusCode c_ok(struct Camera* c) { (void)c; return Device_Ok; }
static enum DeviceStatusCode c_set(struct Camera* c, struct CameraProperties* p) { (void)c; (void)p; return Device_Ok; }
static enum DeviceStatusCode c_get(const struct Camera* c, struct CameraProperties* p) { (void)c; memset(p, 0, sizeof *p); return Device_Ok; }
static enum DeviceStatusCode c_meta(const struct Camera* c, struct CameraPropertyMetadata* p) { (void)c; memset(p, 0, sizeof *p); return Device_Ok; }
static enum DeviceStatusCode c_shape(const struct Camera* c, struct ImageShape* p) { (void)c; memset(p, 0, sizeof *p); return Device_Ok; }
static enum DeviceStatusCode c_frame(struct Camera* c, void* im, size_t* n, struct ImageInfo* i) { (void)c; (void)im; (void)n; (void)i; return Device_Err; }
static enum DeviceState s_set(struct Storage* s, const struct StorageProperties* p) { (void)s; (void)p; return DeviceState_Armed; }
static void s_get(const struct Storage* s, struct StorageProperties* p) { (void)s; (void)p; }
static void s_meta(const struct Storage* s, struct StoragePropertyMetadata* p) { (void)s; memset(p, 0, sizeof *p); }
static enum DeviceState s_start(struct Storage* s) { (void)s; return DeviceState_Running; }
static enum DeviceState s_append(struct Storage* s, const struct VideoFrame* f, size_t* n) { (void)s; (void)f; (void)n; return DeviceState_Running; }
static enum DeviceState s_stop(struct Storage* s) { (void)s; return DeviceState_Armed; }
static void s_destroy(struct Storage* s) { (void)s; }
static void s_reserve(struct Storage* s, const struct ImageShape* sh) { (void)s; (void)sh; }

static enum DeviceStatusCode m_open(struct Driver* d, uint64_t i, struct Device** out)
{
    (void)d;
    if (i >= N_DEV) return Device_Err;
    if (k_tab[i].kind == DeviceKind_Camera) {
        struct Camera* c = calloc(1, sizeof *c);
        c->state = DeviceState_AwaitingConfiguration;
        c->set = c_set; c->get = c_get; c->get_meta = c_meta; c->get_shape = c_shape; c->start = c_ok; c->stop = c_ok;
        c->execute_trigger = c_ok; c->get_frame = c_frame;
        *out = &c->device;
    } else if (k_tab[i].kind == DeviceKind_Storage) {
        struct Storage* s = calloc(1, sizeof *s);
        s->state = DeviceState_AwaitingConfiguration;
        s->set = s_set; s->get = s_get; s->get_meta = s_meta; s->start = s_start; s->append = s_append; s->stop = s_stop;
        s->destroy = s_destroy; s->reserve_image_shape = s_reserve;
        *out = &s->device;
    } else {
        struct Device* dev = calloc(1, sizeof *dev + 64);
        *out = dev;
    }
    return Device_Ok;
}
static enum DeviceStatusCode m_close(struct Driver* d, struct Device* dev)
{
    (void)d;
    if (!dev) return Device_Err;
    // Camera/Storage embed Device as their first member
    free(dev);
    return Device_Ok;
}
static enum DeviceStatusCode m_shutdown(struct Driver* d) { free(d); return Device_Ok; }

#if MOCK_VARIANT != 7
struct Driver* acquire_driver_init_v0(void (*reporter)(int, const char*, int, const char*, const char*))
{
    (void)reporter;
#if MOCK_VARIANT == 6
    return 0;
#else
#if MOCK_VARIANT == 3
    memset(k_long, 'L', 255); k_long[0] = 'l'; k_long[254] = 'g'; k_long[255] = 0;
#endif
    struct Driver* d = malloc(sizeof *d);
    *d = (struct Driver){ m_count, m_describe, m_open, m_close, m_shutdown };
    return d;
#endif
}
#else
int mock_driver_without_entry_point(void) { return 7; }
#endif
