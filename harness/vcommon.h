// Shared helpers for the /verif harnesses: PRNG, hashing, tiny JSON emitters.
#ifndef VERIF_VCOMMON_H
#define VERIF_VCOMMON_H

#include <stdint.h>
#include <stdio.h>
#include <stdlib.h>
#include <string.h>
#include <stdarg.h>

#ifdef __cplusplus
extern "C" {
#endif

typedef struct { uint64_t s; } vrng;

static inline uint64_t splitmix64(uint64_t* x)
{
    uint64_t z = (*x += 0x9E3779B97F4A7C15ULL);
    z = (z ^ (z >> 30)) * 0xBF58476D1CE4E5B9ULL;
    z = (z ^ (z >> 27)) * 0x94D049BB133111EBULL;
    return z ^ (z >> 31);
}
static inline uint64_t vmix(uint64_t a, uint64_t b)
{
    uint64_t x = a * 0x9E3779B97F4A7C15ULL + b + 0x632BE59BD9B4E019ULL;
    return splitmix64(&x);
}
static inline void vrng_seed(vrng* r, uint64_t a, uint64_t b, uint64_t c)
{
    r->s = vmix(vmix(a, b), c);
}
static inline uint64_t vrng_u64(vrng* r) { return splitmix64(&r->s); }
// uniform in [0,n) (n>0)
static inline uint64_t vrng_below(vrng* r, uint64_t n) { return vrng_u64(r) % n; }
// uniform in [lo,hi]
static inline uint64_t vrng_range(vrng* r, uint64_t lo, uint64_t hi)
{
    return lo + vrng_below(r, hi - lo + 1);
}
static inline int vrng_chance(vrng* r, unsigned num, unsigned den)
{
    return vrng_below(r, den) < num;
}

// FNV-1a incremental hash for op logs / signatures
static inline uint64_t vhash_init(void) { return 0xcbf29ce484222325ULL; }
static inline uint64_t vhash_add(uint64_t h, uint64_t v)
{
    for (int i = 0; i < 8; ++i) {
        h ^= (v >> (8 * i)) & 0xff;
        h *= 0x100000001b3ULL;
    }
    return h;
}

// open-addressing set of 64-bit values (0 is reserved: mapped to 1)
typedef struct { uint64_t* v; size_t cap, n; } vset;
static inline void vset_init(vset* s, size_t cap_pow2)
{
    s->cap = cap_pow2; s->n = 0;
    s->v = (uint64_t*)calloc(cap_pow2, sizeof(uint64_t));
}
static inline int vset_add(vset* s, uint64_t x); // returns 1 if new
static inline void vset_grow(vset* s)
{
    vset t; vset_init(&t, s->cap * 2);
    for (size_t i = 0; i < s->cap; ++i) if (s->v[i]) vset_add(&t, s->v[i]);
    free(s->v); *s = t;
}
static inline int vset_add(vset* s, uint64_t x)
{
    if (!x) x = 1;
    if ((s->n + 1) * 2 > s->cap) vset_grow(s);
    size_t i = (size_t)(vmix(x, 7) & (s->cap - 1));
    while (s->v[i]) {
        if (s->v[i] == x) return 0;
        i = (i + 1) & (s->cap - 1);
    }
    s->v[i] = x; s->n++;
    return 1;
}
static inline void vset_dump(const vset* s, const char* path)
{
    FILE* f = fopen(path, "wb");
    if (!f) return;
    for (size_t i = 0; i < s->cap; ++i)
        if (s->v[i]) fwrite(&s->v[i], 8, 1, f);
    fclose(f);
}

// growable text buffer (for op logs / witnesses)
typedef struct { char* p; size_t n, cap; } vbuf;
static inline void vbuf_reset(vbuf* b) { b->n = 0; if (b->p) b->p[0] = 0; }
static inline void vbuf_printf(vbuf* b, const char* fmt, ...)
{
    va_list ap;
    for (;;) {
        va_start(ap, fmt);
        size_t room = b->cap - b->n;
        int k = vsnprintf(b->p ? b->p + b->n : 0, b->p ? room : 0, fmt, ap);
        va_end(ap);
        if (k < 0) return;
        if (b->p && (size_t)k < room) { b->n += (size_t)k; return; }
        size_t nc = b->cap ? b->cap * 2 : 4096;
        while (nc < b->n + (size_t)k + 1) nc *= 2;
        b->p = (char*)realloc(b->p, nc); b->cap = nc;
    }
}
// print s as a JSON string
static inline void vjson_str(FILE* f, const char* s)
{
    fputc('"', f);
    for (; s && *s; ++s) {
        unsigned char c = (unsigned char)*s;
        if (c == '"' || c == '\\') { fputc('\\', f); fputc(c, f); }
        else if (c == '\n') fputs("\\n", f);
        else if (c < 0x20) fprintf(f, "\\u%04x", c);
        else fputc(c, f);
    }
    fputc('"', f);
}

#ifdef __cplusplus
}
#endif
#endif
