#!/usr/bin/env python3
"""Entry point of every registered check.

    python3 check.py <ID> [--tier quick|thorough] [--replay <path>]

exit 0: property held on everything explored (KNOWN-FINDING lines allowed)
exit 1: VIOLATION property=<id> replay=<path>
exit 2: harness failure / inconclusive
"""
import argparse
import importlib
import os
import sys
import traceback

VERIF = os.path.dirname(os.path.abspath(__file__))
sys.path.insert(0, VERIF)

ENGINE_OF = {
    "C01": "chan", "C02": "chan", "C03": "chan",
    "C04": "rt", "C05": "rt", "C06": "rt", "C07": "rt", "C08": "rt", "C09": "rt", "C10": "rt",
    "C11": "hal",
    "C12": "dm",
    "C13": "props",
    "C14": "sto", "C15": "sto", "C16": "sto",
    "C17": "simcam", "C18": "simcam",
}


def all_build_jobs():
    """Closures that warm the build caches for every registered check (setup_cmd)."""
    import build
    jobs = []
    seen = set()
    for eng in sorted(set(ENGINE_OF.values())):
        mod = importlib.import_module("engines." + eng)
        for j in getattr(mod, "build_jobs", lambda: [])():
            jobs.append(j)
    if "chan" in ENGINE_OF.values():
        jobs += [lambda: build.build_chan("asan"), lambda: build.build_chan("tsan")]
    return jobs


def main():
    ap = argparse.ArgumentParser()
    ap.add_argument("prop")
    ap.add_argument("--tier", default=os.environ.get("VERIF_TIER", "quick"), choices=["quick", "thorough"])
    ap.add_argument("--replay")
    a = ap.parse_args()
    if a.prop not in ENGINE_OF:
        print("unknown property %s" % a.prop)
        return 2
    os.chdir(VERIF)
    try:
        mod = importlib.import_module("engines." + ENGINE_OF[a.prop])
        return mod.run(a.prop, a.tier, replay=a.replay)
    except Exception:
        traceback.print_exc()
        print("INCONCLUSIVE property=%s harness error" % a.prop)
        return 2


if __name__ == "__main__":
    sys.exit(main())
