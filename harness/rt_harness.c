// H2 -- whole-runtime harness (C04..C10).  See DESIGN.md section 4/H2.
//
//   rt_harness <mode> <seed> <first> <count> [-v]
//      mode: c04 c05 c06 c07 c08 c09 c10  (scenario mix; every oracle runs in every mode)
//
// Links the real acquire-video-runtime + HAL.  Ring capacities are substituted at link time
// (video_sink_init / video_filter_init wrapped), worker threads are counted through a
// thread_create trampoline, channel calls are wrapped for delay injection and instant
// detection, and devices come from the mock driver module next to this executable
// (libacquire-driver-hdcam.so, control block `rtm`) or from the real acquire-driver-common.
#define _GNU_SOURCE
#include "acquire.h"
#include "device/hal/device.manager.h"
#include "device/props/components.h"
#include "runtime/channel.h"
#include "runtime/video.h"
#include "platform.h"
#include "rt_mock.h"
#include "vcommon.h"

#include <dlfcn.h>
#include <math.h>
#include <sched.h>
#include <time.h>
#include <unistd.h>

#define containerof(ptr, T, V) ((T*)(((char*)(ptr)) - offsetof(T, V)))

// ---- reporting ---------------------------------------------------------------------------------
static int g_hostile;
static vbuf g_log;
static char g_casedesc[128];
static const char* g_mode = "c04";
static unsigned long g_nviol, g_nknown;
static unsigned long g_nviol_other;
static int g_case_violated;
static pthread_mutex_t g_out = PTHREAD_MUTEX_INITIALIZER;

static void violation(const char* props, const char* key, const char* fmt, ...)
{
    char msg[700]; va_list ap; va_start(ap, fmt); vsnprintf(msg, sizeof msg, fmt, ap); va_end(ap);
    pthread_mutex_lock(&g_out);
    // keys listed in VERIF_KNOWN_KEYS (known findings) are reported but do not end the case
    const char* kk = getenv("VERIF_KNOWN_KEYS");
    int known = 0;
    if (kk) { size_t n = strlen(key); const char* p = kk; while ((p = strstr(p, key))) { if ((p == kk || p[-1] == ',') && (p[n] == 0 || p[n] == ',')) { known = 1; break; } ++p; } }
    char hk[160];
    if (g_hostile) { snprintf(hk, sizeof hk, "while-running-misuse"); key = hk; known = kk && strstr(kk, hk) != 0; }
    if (known) { if (++g_nknown > 50) { pthread_mutex_unlock(&g_out); return; } }
    else {
        g_case_violated = 1;
        const char* own = getenv("VERIF_PROP"); // the property this run decides: only its violations count towards the worker's cap
        if (own && !strstr(props, own)) { if (++g_nviol_other > 60) { pthread_mutex_unlock(&g_out); return; } }
        else ++g_nviol;
    }
    printf("V {\"props\":\"%s\",\"key\":\"%s\",\"case\":\"%s\",\"msg\":", props, key, g_casedesc);
    vjson_str(stdout, msg);
    printf(",\"oplog\":"); vjson_str(stdout, g_log.p ? g_log.p : ""); printf("}\n");
    fflush(stdout);
    pthread_mutex_unlock(&g_out);
}
void __asan_on_error(void)
{
    printf("A {\"props\":\"C04,C05,C06,C07,C08,C09,C10\",\"case\":\"%s\",\"oplog\":", g_casedesc);
    vjson_str(stdout, g_log.p ? g_log.p : ""); printf("}\n");
    fflush(stdout);
}
static double now_s(void) { struct timespec t; clock_gettime(CLOCK_MONOTONIC, &t); return t.tv_sec + 1e-9 * t.tv_nsec; }
static void nap_us(long us) { if (us <= 0) return; struct timespec ts = { us / 1000000, (us % 1000000) * 1000 }; nanosleep(&ts, 0); }

// ---- link-time interposition -----------------------------------------------------------------------
enum DeviceStatusCode __real_video_sink_init(struct video_sink_s*, uint8_t, size_t, void (*)(const struct video_sink_s*));
enum DeviceStatusCode __real_video_filter_init(struct video_filter_s*, uint8_t, size_t, struct channel*);
uint8_t __real_thread_create(struct thread*, void (*)(void*), void*);
void __real_condition_variable_wait(struct condition_variable*, struct lock*);
void* __real_channel_write_map(struct channel*, size_t);
void __real_channel_write_unmap(struct channel*);
struct slice __real_channel_read_map(struct channel*, struct channel_reader*);
void __real_channel_read_unmap(struct channel*, struct channel_reader*, size_t);

static size_t g_cap_sink[2] = { 1 << 16, 1 << 16 }, g_cap_filter[2] = { 1 << 16, 1 << 16 };
static struct video_sink_s* g_sink[2];
static struct video_filter_s* g_filter[2];
static _Atomic int g_live_workers;
static _Atomic unsigned long g_worker_starts;
static _Atomic int g_writer_asleep[4];        // [0,1] sink.in of stream 0/1, [2,3] filter.in
static _Atomic unsigned long g_sleeps[4], g_wraps[4];
static _Atomic int g_inject;
static _Atomic uint64_t g_ilv_sig, g_chan_ops;
static __thread int t_role;                   // 1 source 2 filter 3 sink (+8*stream), 0 client/main
static __thread uint64_t t_rng;

enum DeviceStatusCode __wrap_video_sink_init(struct video_sink_s* self, uint8_t id, size_t cap, void (*cb)(const struct video_sink_s*))
{
    (void)cap;
    if (id < 2) g_sink[id] = self;
    return __real_video_sink_init(self, id, id < 2 ? g_cap_sink[id] : 1 << 16, cb);
}
enum DeviceStatusCode __wrap_video_filter_init(struct video_filter_s* self, uint8_t id, size_t cap, struct channel* out)
{
    (void)cap;
    if (id < 2) g_filter[id] = self;
    return __real_video_filter_init(self, id, id < 2 ? g_cap_filter[id] : 1 << 16, out);
}
struct tramp { void (*proc)(void*); void* args; int role; };
static void tramp_main(void* a)
{
    struct tramp t = *(struct tramp*)a;
    free(a);
    t_role = t.role;
    t.proc(t.args);
    atomic_fetch_sub(&g_live_workers, 1);
}
uint8_t __wrap_thread_create(struct thread* self, void (*proc)(void*), void* args)
{
    struct tramp* t = (struct tramp*)malloc(sizeof *t);
    t->proc = proc; t->args = args; t->role = 0;
    for (int i = 0; i < 2; ++i) {
        if (!g_sink[i]) continue;
        struct video_s* v = containerof(g_sink[i], struct video_s, sink);
        if (args == &v->source) t->role = 1 + 8 * i;
        else if (args == &v->filter) t->role = 2 + 8 * i;
        else if (args == &v->sink) t->role = 3 + 8 * i;
    }
    atomic_fetch_add(&g_live_workers, 1);
    atomic_fetch_add(&g_worker_starts, 1);
    uint8_t ok = __real_thread_create(self, tramp_main, t);
    if (!ok) { atomic_fetch_sub(&g_live_workers, 1); free(t); }
    return ok;
}
static int chan_index(const struct channel* ch)
{
    for (int i = 0; i < 2; ++i) {
        if (g_sink[i] && ch == &g_sink[i]->in) return i;
        if (g_filter[i] && ch == &g_filter[i]->in) return 2 + i;
    }
    return -1;
}
void __wrap_condition_variable_wait(struct condition_variable* cv, struct lock* lk)
{
    int idx = -1;
    for (int i = 0; i < 2; ++i) {
        if (g_sink[i] && cv == &g_sink[i]->in.notify_space_available) idx = i;
        if (g_filter[i] && cv == &g_filter[i]->in.notify_space_available) idx = 2 + i;
    }
    if (idx >= 0) { atomic_fetch_add(&g_sleeps[idx], 1); atomic_fetch_add(&g_writer_asleep[idx], 1); }
    __real_condition_variable_wait(cv, lk);
    if (idx >= 0) atomic_fetch_sub(&g_writer_asleep[idx], 1);
}
static void maybe_delay(int op)
{
    atomic_fetch_add(&g_chan_ops, 1);
    // cross-thread order of channel operations = interleaving signature of this acquisition
    uint64_t s = atomic_load(&g_ilv_sig);
    atomic_store(&g_ilv_sig, (s ^ (uint64_t)(t_role * 8 + op)) * 0x100000001b3ULL);
    if (!atomic_load(&g_inject)) return;
    if (!t_rng) t_rng = (uint64_t)(uintptr_t)&t_rng * 0x9E3779B97F4A7C15ULL + 1;
    uint64_t x = splitmix64(&t_rng);
    unsigned sel = (unsigned)(x & 31);
    if (sel < 22) return;
    if (sel < 28) { sched_yield(); return; }
    nap_us(20 + (long)((x >> 8) % 1500));
}
void* __wrap_channel_write_map(struct channel* ch, size_t n)
{
    maybe_delay(1);
    size_t c0 = ch->cycle;
    void* p = __real_channel_write_map(ch, n);
    int idx = chan_index(ch);
    if (idx >= 0 && p && ch->cycle != c0) atomic_fetch_add(&g_wraps[idx], 1);
    return p;
}
// a delay right after the commit widens the window in which a reader can see a frame that the
// writer still touches after having published it
void __wrap_channel_write_unmap(struct channel* ch) { maybe_delay(2); __real_channel_write_unmap(ch); maybe_delay(5); }
struct slice __wrap_channel_read_map(struct channel* ch, struct channel_reader* r) { maybe_delay(3); return __real_channel_read_map(ch, r); }
void __wrap_channel_read_unmap(struct channel* ch, struct channel_reader* r, size_t n) { maybe_delay(4); __real_channel_read_unmap(ch, r, n); }

// ---- runtime + mock access -----------------------------------------------------------------------------
static int g_feed_triggers[2], g_real_trig[2]; // real simulated cameras cannot tell us that they wait for a trigger
static struct rtm_ctl* M;
static struct AcquireRuntime* g_rt;
static int g_loud;
static void reporter(int is_error, const char* file, int line, const char* fn, const char* msg)
{
    if (g_loud) fprintf(stderr, "%s %s:%d %s: %s\n", is_error ? "ERR" : "log", file, line, fn, msg);
}
static const size_t k_bpp[] = { 1, 2, 1, 2, 4, 2, 2, 2 };
static size_t frame_bytes(uint32_t w, uint32_t h, int type) { return (sizeof(struct VideoFrame) + (size_t)w * h * k_bpp[type] + 7) & ~(size_t)7; }

static void load_mock(void)
{
    char exe[4096]; ssize_t n = readlink("/proc/self/exe", exe, sizeof exe - 1);
    if (n <= 0) { fprintf(stderr, "readlink failed\n"); exit(2); }
    exe[n] = 0; char* sl = strrchr(exe, '/'); *sl = 0;
    char path[4300]; snprintf(path, sizeof path, "%s/libacquire-driver-hdcam.so", exe);
    void* h = dlopen(path, RTLD_NOW | RTLD_LOCAL);
    if (!h) { fprintf(stderr, "cannot load mock driver: %s\n", dlerror()); exit(2); }
    M = (struct rtm_ctl*)dlsym(h, "rtm");
    if (!M) { fprintf(stderr, "no rtm symbol\n"); exit(2); }
}

// ---- scenario description ----------------------------------------------------------------------------------
enum end_mode { END_STOP_NOW, END_STOP_DELAY, END_ABORT_RANDOM, END_ABORT_WRITER_ASLEEP, END_ABORT_IN_APPEND, END_ABORT_WAIT_TRIGGER,
                END_ABORT_CLIENT_HOLDS, END_ABORT_AFTER_DONE, END_ABORT_AFTER_WRAP, END_WAIT_DONE_THEN_STOP, END_N };
static const char* k_end[] = { "stop", "stop-after-delay", "abort-random", "abort-writer-asleep", "abort-in-append", "abort-waiting-trigger",
                               "abort-client-holds", "abort-after-done", "abort-after-wrap", "wait-done-stop" };
enum client_pattern { CL_NONE, CL_EAGER, CL_SLOW, CL_PARTIAL, CL_HOLD, CL_N };
static const char* k_client[] = { "none", "eager", "slow", "partial", "hold" };

struct stream_cfg {
    int on;
    uint32_t w, h; int type;
    uint64_t N; uint32_t avg; float wdelay; int trig;
    struct rtm_cam_cfg cam; struct rtm_sto_cfg sto;
    int real_devices; // use simulated camera + trash from acquire-driver-common
};
struct acq_cfg {
    struct stream_cfg s[2];
    int end; int client; int client_stream; int abort_from_thread; int stop_delay_us; int inject;
    int fault; // 0 none, 1 camera fault, 2 storage fault
    int no_configure; // started again as it is, without acquire_configure (the previous settings stay in force)
};

// frames seen by the monitoring client
struct cl_frame { uint64_t frame_id, hw_id, pixhash, ts_hw; uint32_t w, h; int type; int structural_error; int acq_label; uint8_t* pixels; size_t npix; };
static struct cl_frame* g_cl; static size_t g_ncl, g_capcl;
static int g_cl_mapped; static struct VideoFrame *g_cl_beg, *g_cl_end; static double g_cl_map_t;
static unsigned long g_cl_errors, g_cl_maps;
static int g_acq_label;
static int g_cl_first_map_label = -1; // acquisition label during which the client's reader registered

static void client_record(struct VideoFrame* beg, struct VideoFrame* end, int keep)
{
    uint8_t* cur = (uint8_t*)beg;
    while (cur < (uint8_t*)end) {
        struct VideoFrame* f = (struct VideoFrame*)cur;
        if (g_ncl == g_capcl) { g_capcl = g_capcl ? 2 * g_capcl : 1024; g_cl = (struct cl_frame*)realloc(g_cl, g_capcl * sizeof *g_cl); }
        struct cl_frame* r = &g_cl[g_ncl++]; memset(r, 0, sizeof *r);
        r->acq_label = g_acq_label;
        if (((uintptr_t)cur & 7) != 0) { r->structural_error = 1; break; }
        if ((size_t)((uint8_t*)end - cur) < sizeof *f) { r->structural_error = 3; break; }
        size_t img = (size_t)f->shape.strides.planes * (f->shape.type < SampleTypeCount ? k_bpp[f->shape.type] : 0);
        if (f->bytes_of_frame != ((sizeof *f + img + 7) & ~(size_t)7)) r->structural_error = 2;
        if (f->bytes_of_frame < sizeof *f || f->bytes_of_frame > (size_t)((uint8_t*)end - cur)) { r->structural_error = 3; break; }
        r->frame_id = f->frame_id; r->hw_id = f->hardware_frame_id; r->w = f->shape.dims.width; r->h = f->shape.dims.height; r->type = (int)f->shape.type;
        r->ts_hw = f->timestamps.hardware;
        if (sizeof *f + img <= f->bytes_of_frame) {
            r->pixhash = rtm_hash_bytes(f->data, img); r->npix = img;
            if (keep) { r->pixels = (uint8_t*)malloc(img ? img : 1); memcpy(r->pixels, f->data, img); }
        }
        cur += f->bytes_of_frame;
    }
}
// one polling step of the client on `stream`; returns bytes seen
static size_t client_step(int stream, int pattern, vrng* g, int keep, int leave_mapped)
{
    if (pattern == CL_NONE) return 0;
    if (g_cl_mapped) {
        double held = now_s() - g_cl_map_t;
        if (pattern == CL_HOLD && held < 0.02 && !leave_mapped) return 0;
        size_t nbytes = (size_t)((uint8_t*)g_cl_end - (uint8_t*)g_cl_beg), consume = nbytes;
        if (pattern == CL_PARTIAL && g_cl_beg < g_cl_end && vrng_chance(g, 1, 2)) consume = g_cl_beg->bytes_of_frame <= nbytes ? (size_t)g_cl_beg->bytes_of_frame : nbytes; // first frame only
        // partial consumption: the unconsumed frames are mapped (and recorded) again: drop their records
        if (consume < nbytes) {
            size_t nfr = 0; uint8_t* c = (uint8_t*)g_cl_beg;
            while (c < (uint8_t*)g_cl_end) {
                size_t bof = (size_t)((struct VideoFrame*)c)->bytes_of_frame;
                if (bof < sizeof(struct VideoFrame) || bof > (size_t)((uint8_t*)g_cl_end - c)) break; // malformed region (reported by client_record)
                ++nfr; c += bof;
            }
            if (nfr > 1 && g_ncl >= nfr - 1) { for (size_t i = g_ncl - (nfr - 1); i < g_ncl; ++i) free(g_cl[i].pixels); g_ncl -= nfr - 1; }
        }
        if (acquire_unmap_read(g_rt, (uint32_t)stream, consume) != AcquireStatus_Ok) ++g_cl_errors;
        g_cl_mapped = 0;
        return 0;
    }
    if (pattern == CL_SLOW && !vrng_chance(g, 1, 4)) return 0;
    struct VideoFrame *beg = 0, *end = 0;
    ++g_cl_maps;
    if (acquire_map_read(g_rt, (uint32_t)stream, &beg, &end) != AcquireStatus_Ok) { ++g_cl_errors; return 0; }
    g_cl_mapped = 1; g_cl_beg = beg; g_cl_end = end; g_cl_map_t = now_s();
    if (g_cl_first_map_label < 0) g_cl_first_map_label = g_acq_label;
    client_record(beg, end, keep);
    size_t nbytes = (size_t)((uint8_t*)end - (uint8_t*)beg);
    if (pattern == CL_EAGER || (pattern != CL_HOLD && !leave_mapped)) {
        // unmap right away unless we are asked to keep holding
        return nbytes + client_step(stream, pattern, g, keep, leave_mapped);
    }
    return nbytes;
}
static void client_release(int stream)
{
    if (g_cl_mapped) {
        size_t nbytes = (size_t)((uint8_t*)g_cl_end - (uint8_t*)g_cl_beg);
        if (acquire_unmap_read(g_rt, (uint32_t)stream, nbytes) != AcquireStatus_Ok) ++g_cl_errors;
        g_cl_mapped = 0;
    }
}

// ---- configure ----------------------------------------------------------------------------------------------
static int g_api_calls;
static enum AcquireStatusCode do_configure(const struct acq_cfg* a)
{
    struct AcquireProperties props; memset(&props, 0, sizeof props);
    const struct DeviceManager* dm = acquire_device_manager(g_rt);
    for (int i = 0; i < 2; ++i) {
        const struct stream_cfg* s = &a->s[i];
        if (!s->on) continue;
        char cam[32], sto[32];
        if (s->real_devices) { snprintf(cam, sizeof cam, "simulated: empty"); snprintf(sto, sizeof sto, "trash"); }
        else { snprintf(cam, sizeof cam, "mock-cam-%d", i); snprintf(sto, sizeof sto, "mock-sto-%d", i); }
        if (device_manager_select(dm, DeviceKind_Camera, cam, strlen(cam), &props.video[i].camera.identifier) != Device_Ok ||
            device_manager_select(dm, DeviceKind_Storage, sto, strlen(sto), &props.video[i].storage.identifier) != Device_Ok) {
            fprintf(stderr, "device selection failed (%s/%s)\n", cam, sto); exit(2);
        }
        props.video[i].camera.settings.binning = 1;
        props.video[i].camera.settings.pixel_type = (enum SampleType)s->type;
        props.video[i].camera.settings.shape.x = s->w; props.video[i].camera.settings.shape.y = s->h;
        props.video[i].camera.settings.exposure_time_us = 100;
        props.video[i].camera.settings.input_triggers.frame_start.enable = (uint8_t)s->trig;
        props.video[i].max_frame_count = s->N;
        props.video[i].frame_average_count = s->avg;
        props.video[i].storage.write_delay_ms = s->wdelay;
        if (!s->real_devices) { M->cam[i].cfg = s->cam; M->sto[i].cfg = s->sto; }
        g_real_trig[i] = s->real_devices && s->trig;
    }
    ++g_api_calls;
    return acquire_configure(g_rt, &props);
}

// ---- stop / abort with a watchdog --------------------------------------------------------------------------------
static _Atomic int g_call_done; static int g_call_kind; static enum AcquireStatusCode g_call_rc;
static void* call_main(void* a)
{
    (void)a;
    g_call_rc = g_call_kind == 0 ? acquire_stop(g_rt) : acquire_abort(g_rt);
    atomic_store(&g_call_done, 1);
    return 0;
}
// returns 0 if the call returned, else prints the quiescence witness and exits the process
static int guarded_call(int kind, const char* what, double timeout_s)
{
    atomic_store(&g_call_done, 0); g_call_kind = kind;
    pthread_t th; pthread_create(&th, 0, call_main, 0);
    double t0 = now_s(); uint64_t act0 = atomic_load(&M->activity) + atomic_load(&g_chan_ops); double t_act = t0;
    for (;;) {
        if (atomic_load(&g_call_done)) { pthread_join(th, 0); return 0; }
        nap_us(200);
        // a finite triggered acquisition completes only if somebody keeps triggering while stop() waits
        if (kind == 0)
            for (int i = 0; i < 2; ++i)
                if (g_feed_triggers[i] && (atomic_load(&M->cam[i].waiting_trigger) || g_real_trig[i])) acquire_execute_trigger(g_rt, (uint32_t)i);
        uint64_t act = atomic_load(&M->activity) + atomic_load(&g_chan_ops);
        if (act != act0) { act0 = act; t_act = now_s(); }
        if (g_hostile && now_s() - t0 > 8) break; // misuse family: do not spend minutes on a wedged runtime
        if (now_s() - t0 > timeout_s && now_s() - t_act > 10.0) break;
        if (now_s() - t0 > 2 * timeout_s) break;
    }
    // quiescence witness: who is alive, who sleeps where, nothing moved for >= 10 s
    char w[300];
    snprintf(w, sizeof w, "%s did not return within %.0f s; live workers=%d, writer asleep on sink.in=[%d,%d] filter.in=[%d,%d], no device or channel "
                          "activity for %.0f s, camera in get_frame=[%d,%d] waiting trigger=[%d,%d], storage in append=[%d,%d]",
             what, now_s() - t0, atomic_load(&g_live_workers), atomic_load(&g_writer_asleep[0]), atomic_load(&g_writer_asleep[1]),
             atomic_load(&g_writer_asleep[2]), atomic_load(&g_writer_asleep[3]), now_s() - t_act, atomic_load(&M->cam[0].in_get_frame),
             atomic_load(&M->cam[1].in_get_frame), atomic_load(&M->cam[0].waiting_trigger), atomic_load(&M->cam[1].waiting_trigger),
             atomic_load(&M->sto[0].in_append), atomic_load(&M->sto[1].in_append));
    violation(kind == 0 ? "C07,C09,C04" : "C07,C09", kind == 0 ? "stop-hangs" : "abort-hangs", "%s", w);
    printf("X {\"case\":\"%s\",\"what\":\"%s hangs\"}\n", g_casedesc, what); fflush(stdout);
    _exit(5);
}

// ---- per-acquisition result + oracles ---------------------------------------------------------------------------------
static struct { unsigned long cases, acqs, frames_cam, frames_sto, frames_client, wraps, sleeps, stops, aborts, two_stream, avg_acqs, faults_cam,
                faults_sto, instants_hit[END_N], instants_missed[END_N], client_pat[CL_N], late_join, restarts_without_configure, faults_with_averaging, only_stream1_acqs, restarts_on_state, c08_programs, c08_calls, reconfig_switch,
                writer_asleep_at_fault, dead_filter_aborts, avg_windows, nondiv8, shape_changes, holds_across_end, real_dev_acqs, zero_frames; } C;
static vset g_sigs;

static long cam_frames_of_epoch(int dev, uint64_t epoch, struct rtm_frame** first)
{
    long n = 0; *first = 0;
    for (size_t i = 0; i < M->cam[dev].nlog; ++i)
        if (M->cam[dev].log[i].epoch_hint == epoch) { if (!n) *first = &M->cam[dev].log[i]; ++n; }
    return n;
}
static long sto_frames_of_start(int dev, uint32_t start_no, struct rtm_frame** first)
{
    long n = 0; *first = 0;
    for (size_t i = 0; i < M->sto[dev].nlog; ++i)
        if (M->sto[dev].log[i].start_no == start_no) { if (!n) *first = &M->sto[dev].log[i]; ++n; }
    return n;
}
// `all`: also forget what the cameras delivered (start of a case).  Between the acquisitions of a case the
// camera logs are kept so that a stale frame can be recognised by its pixels (they encode device, epoch, id).
static void reset_logs_(int all)
{
    pthread_mutex_lock(&M->mu);
    for (int d = 0; d < RTM_NDEV; ++d) {
        for (size_t i = 0; i < M->sto[d].nlog; ++i) free(M->sto[d].log[i].pixels);
        M->sto[d].nlog = 0;
        if (all) { for (size_t i = 0; i < M->cam[d].nlog; ++i) free(M->cam[d].log[i].pixels); M->cam[d].nlog = 0; }
    }
    pthread_mutex_unlock(&M->mu);
    for (size_t i = 0; i < g_ncl; ++i) free(g_cl[i].pixels);
    g_ncl = 0;
}
static void reset_logs(void) { reset_logs_(0); }
// epoch of the camera frame with these pixels (0 = none of this case's frames)
// (tiny frames collide: a frame that the epoch `prefer` also produced counts as that epoch's)
static uint64_t epoch_of_pixels(int dev, uint64_t pixhash, uint64_t hw_id, uint64_t prefer)
{
    uint64_t ep = 0;
    pthread_mutex_lock(&M->mu);
    for (size_t i = 0; i < M->cam[dev].nlog; ++i)
        if (M->cam[dev].log[i].pixhash == pixhash && M->cam[dev].log[i].hw_id == hw_id) {
            ep = M->cam[dev].log[i].epoch_hint;
            if (ep == prefer) break;
        }
    pthread_mutex_unlock(&M->mu);
    return ep;
}

// expected mean of window [j*k, j*k+k) of epoch `ep` at pixel i, as a double
static double exp_mean(int dev, uint64_t ep, uint64_t first_hw, uint32_t k, int type, size_t i)
{
    double sum = 0;
    for (uint32_t t = 0; t < k; ++t) {
        uint64_t hw = first_hw + t;
        if (k_bpp[type] == 1) {
            uint8_t b = rtm_pixel(M->prf_key, (unsigned)dev, ep, hw, i);
            sum += type == SampleType_i8 ? (double)(int8_t)b : (double)b;
        } else {
            uint16_t v = (uint16_t)(rtm_pixel(M->prf_key, (unsigned)dev, ep, hw, 2 * i) | (rtm_pixel(M->prf_key, (unsigned)dev, ep, hw, 2 * i + 1) << 8));
            sum += type == SampleType_i16 ? (double)(int16_t)v : (double)v;
        }
    }
    return sum / k;
}

struct acq_result { uint64_t cam_epoch[2]; uint32_t sto_start[2]; int started; int ended_by_abort; int fault_fired[2]; int complete[2]; };

// Compare what storage `dev` got during start `start_no` with what camera `dev` delivered in `epoch`.
// prefix_ok: an aborted/faulted acquisition only has to be a gap-free prefix.
static int g_prev_aborted; // the previous acquisition on this runtime ended by abort
static int g_prev_faulted; // ... or had a device fault (C09: "a later fault-free acquisition is complete and correct")
static int g_client_active; // a monitoring client polled during the acquisition being judged
static const char* mk_props(char* buf, size_t n, const char* base, int shape_differs)
{
    snprintf(buf, n, "%s%s%s%s%s", base, g_prev_aborted ? ",C07" : "", g_prev_faulted ? ",C09" : "", g_client_active ? ",C06" : "", shape_differs ? ",C05" : "");
    return buf;
}
static void check_stream(int dev, const struct stream_cfg* s, const struct acq_result* r, int prefix_ok, const char* ctx)
{
    char pb[64];
    struct rtm_frame *cf, *sf;
    pthread_mutex_lock(&M->mu);
    long nc = cam_frames_of_epoch(dev, r->cam_epoch[dev], &cf);
    long ns = sto_frames_of_start(dev, r->sto_start[dev], &sf);
    C.frames_cam += (unsigned long)nc; C.frames_sto += (unsigned long)ns;
    // structural (C05)
    for (long i = 0; i < ns; ++i)
        if (sf[i].structural_error) {
            violation("C05", sf[i].structural_error == 1 ? "storage-frame-misaligned" : sf[i].structural_error == 2 ? "storage-frame-size-field" : "storage-packet-overshoot",
                      "%s stream %d: frame %ld of the storage log: header at %p, bytes_of_frame=%llu for %ux%u type %d", ctx, dev, i,
                      (void*)sf[i].addr, (unsigned long long)sf[i].bytes_of_frame, sf[i].w, sf[i].h, sf[i].type);
            break;
        }
    if (s->avg > 1) {
        // ---- C10 ------------------------------------------------------------------------------------
        long full = nc / s->avg;
        ++C.avg_acqs;
        if (!prefix_ok && s->N != (uint64_t)-1 && nc != (long)s->N)
            violation(mk_props(pb, sizeof pb, "C10,C04", 0), "acquired-frame-count", "%s stream %d: a finite acquisition of %llu frames took %ld frames from the camera",
                      ctx, dev, (unsigned long long)s->N, nc);
        if (!prefix_ok && (ns < full || ns > full + 1))
            violation(mk_props(pb, sizeof pb, "C10,C04", 0), "averaging-frame-count", "%s stream %d: %ld camera frames, window %u: storage got %ld frames, expected %ld (+1 trailing at most)",
                      ctx, dev, nc, s->avg, ns, full);
        if (g_loud) { fprintf(stderr, "storage ids:"); for (long j = 0; j < ns; ++j) fprintf(stderr, " %llu", (unsigned long long)sf[j].frame_id); fprintf(stderr, "\n"); }
        long ncheck = ns < full ? ns : full;
        for (long j = 0; j < ncheck && !g_case_violated; ++j) {
            struct rtm_frame* f = &sf[j];
            uint64_t first_hw = cf[j * s->avg].hw_id;
            if (f->frame_id != (uint64_t)(j * s->avg))
                violation("C10", "averaging-frame-id", "%s stream %d: averaged frame %ld has frame_id %llu, window starts at frame %ld", ctx, dev, j,
                          (unsigned long long)f->frame_id, j * (long)s->avg);
            else if (f->type != SampleType_f32 || f->w != cf[j * s->avg].w || f->h != cf[j * s->avg].h)
                violation("C10", "averaging-shape", "%s stream %d: averaged frame %ld is %ux%u type %d", ctx, dev, j, f->w, f->h, f->type);
            else if (f->pixels) {
                size_t npx = (size_t)f->w * f->h;
                for (size_t i = 0; i < npx; ++i) {
                    float got; memcpy(&got, f->pixels + 4 * i, 4);
                    double e = exp_mean(dev, r->cam_epoch[dev], first_hw, s->avg, s->type, i);
                    if (!(fabs((double)got - e) <= 2.5e-7 * fabs(e) + 1e-30)) {
                        violation("C10", "averaging-pixel-value", "%s stream %d: averaged frame %ld pixel %zu is %.9g, the mean of the %u inputs is %.9g",
                                  ctx, dev, j, i, (double)got, s->avg, e);
                        break;
                    }
                }
                ++C.avg_windows;
            }
        }
    } else {
        // ---- C04 / C07 prefix ------------------------------------------------------------------------
        if (!prefix_ok && s->N != (uint64_t)-1 && nc != (long)s->N)
            violation(mk_props(pb, sizeof pb, "C04", 0), "acquired-frame-count", "%s stream %d: a finite acquisition of %llu frames took %ld frames from the camera",
                      ctx, dev, (unsigned long long)s->N, nc);
        if (!prefix_ok && ns != nc)
            violation(mk_props(pb, sizeof pb, "C04", 0), ns < nc ? "frames-lost" : "frames-extra", "%s stream %d: camera delivered %ld frames, storage received %ld", ctx, dev, nc, ns);
        if (prefix_ok && ns > nc)
            violation("C07,C09", "frames-extra", "%s stream %d: camera delivered %ld frames, storage received %ld", ctx, dev, nc, ns);
        long n = ns < nc ? ns : nc;
        for (long i = 0; i < n; ++i) {
            struct rtm_frame *a = &cf[i], *b = &sf[i];
            if (b->frame_id != (uint64_t)i || b->hw_id != a->hw_id || b->w != a->w || b->h != a->h || b->type != a->type || b->pixhash != a->pixhash) {
                // classify: stale frame of an earlier acquisition?
                uint64_t bep = 0; // epoch of the camera frame whose pixels storage got (lock is held: scan directly)
                for (size_t q = 0; q < M->cam[dev].nlog; ++q)
                    if (M->cam[dev].log[q].pixhash == b->pixhash && M->cam[dev].log[q].hw_id == b->hw_id) { bep = M->cam[dev].log[q].epoch_hint; if (bep == r->cam_epoch[dev]) break; }
                int stale = bep != 0 && bep != r->cam_epoch[dev];
                int shp = b->w != a->w || b->h != a->h || b->type != a->type;
                violation(prefix_ok ? (shp ? "C07,C09,C05" : "C07,C09") : mk_props(pb, sizeof pb, "C04,C09", shp), stale ? "stale-frame-in-storage" : "frame-mismatch",
                          "%s stream %d: storage frame %ld has id %llu hw %llu %ux%u (epoch %llu), camera frame %ld is hw %llu %ux%u (epoch %llu)%s", ctx, dev, i,
                          (unsigned long long)b->frame_id, (unsigned long long)b->hw_id, b->w, b->h, (unsigned long long)bep, i,
                          (unsigned long long)a->hw_id, a->w, a->h, (unsigned long long)r->cam_epoch[dev], b->pixhash != a->pixhash ? " pixels differ" : "");
                break;
            }
        }
    }
    pthread_mutex_unlock(&M->mu);
}

// the monitoring client's view of acquisition `label` on `dev`
static void check_client(int dev, const struct stream_cfg* s, const struct acq_result* r, int label, const char* ctx)
{
    long prev = -1; int first = 1, late_join_reported = 0;
    for (size_t i = 0; i < g_ncl; ++i) {
        struct cl_frame* f = &g_cl[i];
        if (f->acq_label != label) continue;
        ++C.frames_client;
        if (f->structural_error) {
            violation("C05", "client-frame-structure", "%s stream %d: client frame %zu structural error %d", ctx, dev, i, f->structural_error);
            return;
        }
        // which acquisition does this frame belong to?  raw frames: ask the pixels (they encode device, epoch and
        // hardware id); averaged frames: only the copied hardware timestamp can tell
        uint64_t ts_ep = f->ts_hw >> 32;
        uint64_t ep = s->avg > 1 ? ((ts_ep != 0 && ts_ep < r->cam_epoch[dev]) ? ts_ep : r->cam_epoch[dev])
                                 : epoch_of_pixels(dev, f->pixhash, f->hw_id, r->cam_epoch[dev]);
        if (ep == 0 && ts_ep != 0 && ts_ep < r->cam_epoch[dev]) ep = ts_ep; // e.g. an averaged frame of an earlier acquisition
        // tiny frames (1x1 u8 = one pixel byte): the pixels of a frame of an earlier acquisition can equal those of this
        // acquisition's frame with the same hardware id, and the lookup above prefers this acquisition.  The hardware
        // timestamp (epoch << 32 | hardware id, copied by the source thread) settles it: if it names an earlier epoch
        // whose camera frame of that hardware id had exactly these pixels, the frame is that earlier one.
        if (!s->real_devices && s->avg <= 1 && ep == r->cam_epoch[dev] && ts_ep != 0 && ts_ep < r->cam_epoch[dev] &&
            (uint32_t)f->ts_hw == (uint32_t)f->hw_id && epoch_of_pixels(dev, f->pixhash, f->hw_id, ts_ep) == ts_ep) ep = ts_ep;
        // the sample type tells leftovers apart as well: averaged frames are f32, raw frames of these cameras are not
        uint64_t earlier = r->cam_epoch[dev] > 1 ? r->cam_epoch[dev] - 1 : r->cam_epoch[dev] + 1000;
        if (s->avg > 1 && f->type != SampleType_f32) ep = earlier;
        if (s->avg <= 1 && ep == 0 && f->type == SampleType_f32 && s->type != SampleType_f32) ep = earlier;
        if (ep == 0 && first && g_cl_first_map_label == label) ep = r->cam_epoch[dev] - 1 ? r->cam_epoch[dev] - 1 : 1; // unknown leftovers handed to a joining client
        if (!s->real_devices && s->avg <= 1 && ep == 0) {
            violation("C06", "client-frame-mismatch", "%s stream %d: client frame id %llu (hw %llu) carries pixels no camera frame of this runtime had", ctx, dev,
                      (unsigned long long)f->frame_id, (unsigned long long)f->hw_id);
            return;
        }
        if (!s->real_devices && ep != r->cam_epoch[dev]) {
            if (first && g_cl_first_map_label == label) {
                // the reader registered during this acquisition and starts at the beginning of the
                // current lap of the queue, which still holds frames of earlier acquisitions
                if (!late_join_reported) violation("C06", "late-join-sees-earlier-acquisition",
                          "%s stream %d: a client that first mapped in this acquisition (epoch %llu) was handed frame id %llu of epoch %llu", ctx, dev,
                          (unsigned long long)r->cam_epoch[dev], (unsigned long long)f->frame_id, (unsigned long long)ep);
                late_join_reported = 1;
                continue; // judge the rest of the sequence on its own
            }
            violation("C06", first ? "client-stale-first-frame" : "client-stale-frame",
                      "%s stream %d: client saw frame id %llu of camera epoch %llu during acquisition with epoch %llu (%s)", ctx, dev,
                      (unsigned long long)f->frame_id, (unsigned long long)ep, (unsigned long long)r->cam_epoch[dev],
                      first ? "first frame seen in this acquisition" : "later frame");
            return;
        }
        if (!first) {
            long step = s->avg > 1 ? (long)s->avg : 1;
            if ((long)f->frame_id != prev + step) {
                violation("C06", (long)f->frame_id <= prev ? "client-repeat-or-reorder" : "client-gap",
                          "%s stream %d: client saw frame id %llu after %ld", ctx, dev, (unsigned long long)f->frame_id, prev);
                return;
            }
        }
        if (!s->real_devices && s->avg <= 1) {
            // pixel bytes: compare with the camera log entry of that hardware id
            pthread_mutex_lock(&M->mu);
            struct rtm_frame* cf; long nc = cam_frames_of_epoch(dev, r->cam_epoch[dev], &cf);
            if ((long)f->frame_id < nc && (cf[f->frame_id].pixhash != f->pixhash || cf[f->frame_id].hw_id != f->hw_id)) {
                pthread_mutex_unlock(&M->mu);
                violation("C06", "client-frame-mismatch", "%s stream %d: client frame id %llu differs from what the camera delivered", ctx, dev, (unsigned long long)f->frame_id);
                return;
            }
            pthread_mutex_unlock(&M->mu);
        }
        prev = (long)f->frame_id; first = 0;
    }
}

// ---- C08 automaton over the mock driver's event log ----------------------------------------------------------------------
static size_t g_ev_checked;
struct inst_state { uint32_t inst; int open, started, closed; };
static struct inst_state g_inst[4096]; static int g_ninst;
static struct inst_state* inst_get(uint32_t id)
{
    for (int i = 0; i < g_ninst; ++i) if (g_inst[i].inst == id) return &g_inst[i];
    if (g_ninst == 4096) g_ninst = 0;
    g_inst[g_ninst] = (struct inst_state){ id, 0, 0, 0 };
    return &g_inst[g_ninst++];
}
static void check_events(const char* ctx)
{
    pthread_mutex_lock(&M->mu);
    for (; g_ev_checked < M->nevents; ++g_ev_checked) {
        struct rtm_event* e = &M->events[g_ev_checked];
        struct inst_state* st = inst_get(e->instance);
        const char* what = e->is_storage ? "storage" : "camera";
        switch (e->op) {
            case RTM_OPEN: st->open = 1; break;
            case RTM_CLOSE:
                if (st->closed) violation("C08", "device-closed-twice", "%s: %s instance %u closed twice", ctx, what, e->instance);
                st->closed = 1; st->open = 0;
                break;
            default:
                if (st->closed) { violation("C08", "device-used-after-close", "%s: %s instance %u op %d after close", ctx, what, e->instance, e->op); break; }
                if (e->op == RTM_START) {
                    if (e->hal_state != DeviceState_Armed)
                        violation("C08", "start-when-not-armed", "%s: %s instance %u started while its HAL state was %d", ctx, what, e->instance, e->hal_state);
                    if (st->started)
                        violation("C08", "start-without-stop", "%s: %s instance %u started again without a stop", ctx, what, e->instance);
                    if ((e->is_storage && e->result == DeviceState_Running) || (!e->is_storage && e->result == Device_Ok)) st->started = 1;
                } else if (e->op == RTM_STOP) {
                    if (!st->started) violation("C08", "stop-without-start", "%s: %s instance %u stopped without a successful start", ctx, what, e->instance);
                    st->started = 0;
                } else if (e->op == RTM_APPEND) {
                    if (!st->started) violation("C08,C09", "append-outside-start-stop", "%s: storage instance %u received data outside start..stop", ctx, e->instance);
                    if (e->result != DeviceState_Running) st->started = 0; // the device reported that it left the running state
                }
        }
    }
    pthread_mutex_unlock(&M->mu);
}
static void check_all_closed(const char* ctx)
{
    for (int d = 0; d < RTM_NDEV; ++d) {
        if (atomic_load(&M->cam[d].live_instances) != 0)
            violation("C08", "device-not-closed-by-shutdown", "%s: %d instance(s) of mock camera %d still open after acquire_shutdown", ctx, atomic_load(&M->cam[d].live_instances), d);
        if (atomic_load(&M->sto[d].live_instances) != 0)
            violation("C08", "device-not-closed-by-shutdown", "%s: %d instance(s) of mock storage %d still open after acquire_shutdown", ctx, atomic_load(&M->sto[d].live_instances), d);
    }
    for (int i = 0; i < g_ninst; ++i)
        if (g_inst[i].started && g_inst[i].closed)
            violation("C08", "closed-while-started", "%s: device instance %u closed without a stop after its start", ctx, g_inst[i].inst);
}

// ---- one acquisition ---------------------------------------------------------------------------------------------------------
static int wait_workers_gone(double timeout)
{
    double t0 = now_s();
    while (atomic_load(&g_live_workers) > 0 && now_s() - t0 < timeout) nap_us(200);
    return atomic_load(&g_live_workers) == 0;
}

static void run_acquisition(const struct acq_cfg* a, vrng* g, int acq_index, struct acq_result* r, int check_c04)
{
    char ctx[64]; snprintf(ctx, sizeof ctx, "acq %d (%s)", acq_index, k_end[a->end]);
    memset(r, 0, sizeof *r);
    atomic_store(&g_inject, a->inject);
    for (int i = 0; i < 4; ++i) { atomic_store(&g_wraps[i], 0); atomic_store(&g_sleeps[i], 0); }
    atomic_store(&g_ilv_sig, 0xcbf29ce484222325ULL);
    if (a->no_configure) {
        for (int i = 0; i < 2; ++i) if (a->s[i].on && !a->s[i].real_devices) { M->cam[i].cfg = a->s[i].cam; M->sto[i].cfg = a->s[i].sto; }
    } else if (do_configure(a) != AcquireStatus_Ok) { violation("C08", "configure-failed", "%s: acquire_configure failed", ctx); return; }
    for (int i = 0; i < 2; ++i)
        if (a->s[i].on) { r->cam_epoch[i] = (uint64_t)atomic_load(&M->cam[i].epoch) + 1; r->sto_start[i] = (uint32_t)atomic_load(&M->sto[i].starts) + 1; }
    ++g_acq_label;
    int label = g_acq_label;
    ++g_api_calls;
    if (acquire_start(g_rt) != AcquireStatus_Ok) { violation("C08", "start-failed", "%s: acquire_start failed", ctx); return; }
    r->started = 1;
    if (acquire_get_state(g_rt) != DeviceState_Running && atomic_load(&g_live_workers) > 0) { /* finished already: fine */ }
    int cs = a->client_stream;
    int keep = a->s[cs].avg > 1;
    // ---- drive until the end instant -------------------------------------------------------------------------
    double t0 = now_s(); int hit = 0; long trig_budget[2] = { 0, 0 };
    double budget = (a->end == END_WAIT_DONE_THEN_STOP || a->end == END_ABORT_AFTER_DONE) ? (a->client != CL_NONE ? 40.0 : 10.0) : 1.5;
    for (;;) {
        for (int i = 0; i < 2; ++i)
            if (a->s[i].on && a->s[i].trig && !a->s[i].real_devices && a->end != END_ABORT_WAIT_TRIGGER) {
                // feed triggers so that a finite acquisition can complete
                if (atomic_load(&M->cam[i].waiting_trigger)) { acquire_execute_trigger(g_rt, (uint32_t)i); ++trig_budget[i]; }
            }
        client_step(cs, a->client, g, keep, a->end == END_ABORT_CLIENT_HOLDS);
        int done = atomic_load(&g_live_workers) == 0;
        double el = now_s() - t0;
        if (a->end == END_STOP_NOW) { hit = 1; break; }
        if (a->end == END_STOP_DELAY || a->end == END_ABORT_RANDOM) { if (el * 1e6 >= a->stop_delay_us) { hit = 1; break; } }
        else if (a->end == END_ABORT_WRITER_ASLEEP) { if (atomic_load(&g_writer_asleep[0]) || atomic_load(&g_writer_asleep[1]) || atomic_load(&g_writer_asleep[2])) { hit = 1; break; } }
        else if (a->end == END_ABORT_IN_APPEND) { if (atomic_load(&M->sto[0].in_append) || atomic_load(&M->sto[1].in_append)) { hit = 1; break; } }
        else if (a->end == END_ABORT_WAIT_TRIGGER) { if (atomic_load(&M->cam[0].waiting_trigger) || atomic_load(&M->cam[1].waiting_trigger)) { hit = 1; break; } }
        else if (a->end == END_ABORT_CLIENT_HOLDS) { if (g_cl_mapped && g_cl_end > g_cl_beg) { hit = 1; break; } }
        else if (a->end == END_ABORT_AFTER_WRAP) { if (atomic_load(&g_wraps[0]) || atomic_load(&g_wraps[1])) { hit = 1; break; } }
        else if (a->end == END_ABORT_AFTER_DONE || a->end == END_WAIT_DONE_THEN_STOP) { if (done) { hit = 1; break; } }
        if (done && a->end != END_ABORT_AFTER_DONE && a->end != END_WAIT_DONE_THEN_STOP) break; // instant can no longer occur
        if (el > budget) break;
        nap_us(150);
    }
    if (hit) ++C.instants_hit[a->end]; else ++C.instants_missed[a->end];
    if (hit && a->end == END_ABORT_WAIT_TRIGGER) {
        // the source thread is provably alive (its camera call is blocked waiting for a trigger): the runtime must say Running
        long c0 = atomic_load(&M->cam[0].calls) + atomic_load(&M->cam[1].calls);
        int w0 = atomic_load(&M->cam[0].waiting_trigger) || atomic_load(&M->cam[1].waiting_trigger);
        enum DeviceState st = acquire_get_state(g_rt);
        int w1 = atomic_load(&M->cam[0].waiting_trigger) || atomic_load(&M->cam[1].waiting_trigger);
        long c1 = atomic_load(&M->cam[0].calls) + atomic_load(&M->cam[1].calls);
        if (w0 && w1 && c0 == c1 && st != DeviceState_Running)
            violation("C08", "not-running-with-live-workers", "%s: acquire_get_state says %d while a source thread is blocked in the camera waiting for a trigger", ctx, (int)st);
    }
    if (a->end == END_WAIT_DONE_THEN_STOP || a->end == END_ABORT_AFTER_DONE) {
        // the runtime reports Running only while workers are alive (C08)
        if (atomic_load(&g_live_workers) == 0) {
            enum DeviceState st = acquire_get_state(g_rt);
            if (st == DeviceState_Running)
                violation("C08,C09", "running-without-workers", "%s: acquire_get_state says Running although every worker thread has exited", ctx);
        }
    }
    int by_abort = a->end >= END_ABORT_RANDOM && a->end <= END_ABORT_AFTER_WRAP;
    if (!hit && a->client != CL_NONE && !by_abort && atomic_load(&g_live_workers) > 0) {
        // budget exhausted with a registered client: stop() would wait for frames only the client can
        // make room for, and the client cannot poll from inside stop().  End it by abort instead.
        by_abort = 1;
        vbuf_printf(&g_log, "(budget exhausted: abort instead of stop) ");
    }
    r->ended_by_abort = by_abort;
    if (g_cl_mapped && a->end != END_ABORT_CLIENT_HOLDS && !(a->client == CL_HOLD && vrng_chance(g, 1, 2))) client_release(cs);
    if (g_cl_mapped) ++C.holds_across_end;
    vbuf_printf(&g_log, "%s%s ", k_end[a->end], hit ? "" : "(instant not reached)");
    ++g_api_calls;
    for (int i = 0; i < 2; ++i) g_feed_triggers[i] = a->s[i].on && a->s[i].trig;
    if (by_abort) { ++C.aborts; guarded_call(1, "acquire_abort", 20); }
    else { ++C.stops; guarded_call(0, "acquire_stop", 25); }
    // ---- post-conditions ------------------------------------------------------------------------------------------
    if (atomic_load(&g_live_workers) != 0)
        violation("C07,C08", "workers-alive-after-stop", "%s: %d worker thread(s) still alive after %s returned", ctx, atomic_load(&g_live_workers), by_abort ? "abort" : "stop");
    enum DeviceState st = acquire_get_state(g_rt);
    if (st != DeviceState_Armed)
        violation("C07,C08", "not-armed-after-stop", "%s: state %d after %s returned (expected Armed)", ctx, (int)st, by_abort ? "abort" : "stop");
    // client: a region held across stop/abort is released now; further polling must keep working and see nothing stale
    client_release(cs);
    if (a->client != CL_NONE) {
        size_t before = g_ncl;
        int lab = g_acq_label; g_acq_label = label + 1000000; // anything seen now arrives after stop returned
        for (int k = 0; k < 3; ++k) { client_step(cs, CL_EAGER, g, 0, 0); }
        g_acq_label = lab;
        if (g_ncl != before && g_cl_first_map_label == label + 1000000)
            violation("C06", "late-join-sees-earlier-acquisition", "%s: a client that first mapped after %s had returned was handed %zu frame(s) of the finished acquisition",
                      ctx, by_abort ? "abort" : "stop", g_ncl - before);
        else if (g_ncl != before)
            violation(by_abort ? "C06,C07" : "C06", "client-frames-after-stop", "%s: %zu frame(s) of this acquisition were delivered to the client after %s had returned", ctx,
                      g_ncl - before, by_abort ? "abort" : "stop");
    }
    if (g_cl_errors) { violation("C06", "client-map-error", "%s: acquire_map_read/unmap_read returned an error %lu time(s)", ctx, g_cl_errors); g_cl_errors = 0; }
    g_client_active = a->client != CL_NONE;
    for (int i = 0; i < 2; ++i) {
        if (!a->s[i].on || a->s[i].real_devices) continue;
        // devices stopped: last camera event of that instance must be a stop
        int faulted = 0;
        pthread_mutex_lock(&M->mu);
        long last_cam_start = -1, last_cam_stop = -1, failing_append = -1, append_after_fail = -1;
        for (size_t k = 0; k < M->nevents; ++k) {
            struct rtm_event* e = &M->events[k];
            if (e->dev != i) continue;
            if (!e->is_storage && e->op == RTM_START && (uint64_t)e->arg == r->cam_epoch[i]) last_cam_start = (long)k;
            if (!e->is_storage && e->op == RTM_STOP && last_cam_start >= 0 && (long)k > last_cam_start && last_cam_stop < last_cam_start) last_cam_stop = (long)k;
            if (e->is_storage && e->op == RTM_APPEND && last_cam_start >= 0 && (long)k > last_cam_start) {
                if (failing_append >= 0 && append_after_fail < 0) append_after_fail = (long)k;
                if (e->result != DeviceState_Running && failing_append < 0) failing_append = (long)k;
            }
            if (!e->is_storage && e->op == RTM_GET_FRAME && e->result != Device_Ok && (long)k > last_cam_start && last_cam_start >= 0) faulted = 1;
        }
        pthread_mutex_unlock(&M->mu);
        if (failing_append >= 0) faulted = 1;
        r->fault_fired[i] = faulted;
        if (last_cam_start >= 0 && last_cam_stop < 0)
            violation("C07,C09,C08", "camera-not-stopped", "%s stream %d: the camera was started but no stop reached the device", ctx, i);
        if (append_after_fail >= 0)
            violation("C09", "append-after-failed-append", "%s stream %d: storage received another append after it had reported a failure", ctx, i);
        int prefix_ok = by_abort || faulted || a->fault;
        if (check_c04 || prefix_ok) check_stream(i, &a->s[i], r, prefix_ok, ctx);
        if (a->s[i].cam.shape_change_every) ++C.shape_changes;
        if ((((size_t)a->s[i].w * a->s[i].h * k_bpp[a->s[i].type]) & 7) != 0) ++C.nondiv8;
        if (a->s[i].cam.zero_every) ++C.zero_frames;
    }
    if (a->client != CL_NONE) check_client(cs, &a->s[cs], r, label, ctx);
    check_events(ctx);
    unsigned long w = atomic_load(&g_wraps[0]) + atomic_load(&g_wraps[1]) + atomic_load(&g_wraps[2]) + atomic_load(&g_wraps[3]);
    unsigned long sl = atomic_load(&g_sleeps[0]) + atomic_load(&g_sleeps[1]) + atomic_load(&g_sleeps[2]) + atomic_load(&g_sleeps[3]);
    C.wraps += w; C.sleeps += sl; ++C.acqs; ++C.client_pat[a->client];
    if (a->s[1].on) ++C.two_stream;
    if (a->s[0].real_devices) ++C.real_dev_acqs;
    vbuf_printf(&g_log, "[wraps %lu sleeps %lu] | ", w, sl);
    // distinct, non-trivial execution: ring wrapped at least once; signature = config class x interleaving of channel ops
    if (w > 0)
        vset_add(&g_sigs, vmix(atomic_load(&g_ilv_sig), vmix((uint64_t)a->end * 64 + (uint64_t)a->client * 8 + (uint64_t)a->s[1].on * 4 + (a->s[0].avg > 1) * 2 + (sl > 0),
                                                             (uint64_t)a->s[0].w * 4099 + a->s[0].h)));
}

// ---- scenario generation ---------------------------------------------------------------------------------------------------------
static void gen_stream(vrng* g, struct stream_cfg* s, const char* mode, int small_only)
{
    memset(s, 0, sizeof *s);
    s->on = 1;
    s->type = (int)vrng_below(g, SampleTypeCount);
    if (s->type == SampleType_f32 && !strcmp(mode, "c10")) s->type = SampleType_u8;
    s->w = (uint32_t)vrng_range(g, 1, small_only ? 24 : 64); s->h = (uint32_t)vrng_range(g, 1, small_only ? 16 : 48);
    if (vrng_chance(g, 1, 4)) { s->w = (uint32_t)vrng_range(g, 1, 9); s->h = (uint32_t)vrng_range(g, 1, 3); } // every size residue mod 8
    s->N = vrng_chance(g, 1, 6) ? vrng_range(g, 1, 4) : vrng_range(g, 5, 400);
    s->wdelay = vrng_chance(g, 2, 3) ? 0.f : (vrng_chance(g, 1, 2) ? 0.5f : 5.f);
    s->cam.fail_at_call = -1; s->sto.fail_at_frame = -1; s->sto.fail_state = DeviceState_AwaitingConfiguration;
    switch (vrng_below(g, 5)) { // camera pacing
        case 0: break;                                                  // burst
        case 1: s->cam.pace_min_us = 20; s->cam.pace_max_us = 200; break;
        case 2: s->cam.pace_min_us = 0; s->cam.pace_max_us = 1500; break; // jitter
        case 3: s->cam.stall_every = (int)vrng_range(g, 3, 40); s->cam.stall_us = (int)vrng_range(g, 2000, 15000); break;
        default: s->cam.pace_min_us = 300; s->cam.pace_max_us = 600; break;
    }
    switch (vrng_below(g, 4)) { // storage speed
        case 0: break;
        case 1: s->sto.append_min_us = 50; s->sto.append_max_us = 2000; break;
        case 2: s->sto.slow_until_frame = (long)vrng_range(g, 1, 60); s->sto.slow_us = (int)vrng_range(g, 3000, 25000); break;
        default: s->sto.append_min_us = 1000; s->sto.append_max_us = 6000; break;
    }
    if (s->cam.pace_max_us >= 300 && s->N > 150) s->N = vrng_range(g, 20, 150);
    if (vrng_chance(g, 1, 3)) s->cam.stop_us = (int)vrng_range(g, 200, 5000);
    if (vrng_chance(g, 1, 3)) s->cam.trigger_us = (int)vrng_range(g, 100, 3000);
    if (vrng_chance(g, 1, 4)) s->sto.stop_us = (int)vrng_range(g, 200, 5000);
}

static void run_case(const char* mode, uint64_t seed, unsigned long icase, int verbose)
{
    vrng g; vrng_seed(&g, seed, (uint64_t)(mode[1] * 256 + mode[2]), icase);
    snprintf(g_casedesc, sizeof g_casedesc, "%s %llu %lu 1", mode, (unsigned long long)seed, icase);
    vbuf_reset(&g_log); g_case_violated = 0;
    M->prf_key = vrng_u64(&g);
    int two = vrng_chance(&g, 1, 4);
    int only1 = !two && vrng_chance(&g, 1, 8); // one case in eight configures the second stream only (stream 0 stays disabled)
    int is10 = !strcmp(mode, "c10"), is09 = !strcmp(mode, "c09"), is07 = !strcmp(mode, "c07"), is06 = !strcmp(mode, "c06"), is05 = !strcmp(mode, "c05");
    int may_avg = is10 || vrng_chance(&g, 1, is07 ? 2 : 4);
    // base shapes decide the ring: 1.2 .. 20 frames (of the largest frame of this case)
    struct acq_cfg base; memset(&base, 0, sizeof base);
    gen_stream(&g, &base.s[0], mode, is10);
    if (two) gen_stream(&g, &base.s[1], mode, is10);
    for (int i = 0; i < 2; ++i) {
        size_t fb = frame_bytes(base.s[i].on ? base.s[i].w : 8, base.s[i].on ? base.s[i].h : 8, base.s[i].on ? base.s[i].type : 0);
        size_t ob = frame_bytes(base.s[i].on ? base.s[i].w : 8, base.s[i].on ? base.s[i].h : 8, SampleType_f32);
        double ring = vrng_chance(&g, 1, 2) ? 1.2 + 0.1 * (double)vrng_below(&g, 30) : 2.0 + (double)vrng_below(&g, 18);
        g_cap_filter[i] = (size_t)((double)fb * ring) + 16;
        // the sink's ring also carries f32 accumulators when averaging: 1.5 .. 6 output frames there
        size_t per = may_avg ? (ob > fb ? ob : fb) : fb;
        double sring = is10 ? 1.5 + 0.25 * (double)vrng_below(&g, 18) : ring;
        g_cap_sink[i] = (size_t)((double)per * sring) + 16;
        if (g_cap_sink[i] <= per + 8) g_cap_sink[i] = per + 64;
        if (g_cap_filter[i] <= fb + 8) g_cap_filter[i] = fb + 64;
    }
    if (only1) { g_cap_sink[1] = g_cap_sink[0]; g_cap_filter[1] = g_cap_filter[0]; }
    vbuf_printf(&g_log, "ring sink=%zu/%zu filter=%zu streams=%d | ", g_cap_sink[0], frame_bytes(base.s[0].w, base.s[0].h, base.s[0].type), g_cap_filter[0], 1 + two);
    g_sink[0] = g_sink[1] = 0; g_filter[0] = g_filter[1] = 0;
    atomic_store(&g_live_workers, 0);
    g_rt = acquire_init(reporter);
    if (!g_rt) { violation("C08", "init-failed", "acquire_init failed"); return; }
    g_cl_mapped = 0; g_cl_errors = 0; g_acq_label = 0; g_ev_checked = M->nevents; g_ninst = 0; g_cl_first_map_label = -1;
    reset_logs_(1);
    int nacq = (int)vrng_range(&g, 2, is06 ? 8 : 5);
    g_prev_aborted = 0; g_prev_faulted = 0;
    int client_from = is06 && vrng_chance(&g, 1, 3) ? (int)vrng_range(&g, 1, nacq - 1) : 0; // late join
    int client_kind = (int)vrng_range(&g, 1, CL_N - 1);
    int have_client = is06 || vrng_chance(&g, 1, 2);
    int client_stream = two ? (int)vrng_below(&g, 2) : 0;
    struct acq_cfg prev; memset(&prev, 0, sizeof prev);
    for (int q = 0; q < nacq && !g_case_violated; ++q) {
        struct acq_cfg a = base;
        // every fifth acquisition after a fault-free one is started again as it is, without acquire_configure
        // (after a fault the devices await configuration by design)
        int repeat = q > 0 && !prev.fault && vrng_chance(&g, 1, 5);
        if (repeat) {
            a = prev; a.no_configure = 1; a.inject = vrng_chance(&g, 2, 3);
            a.client = have_client && q >= client_from ? (vrng_chance(&g, 1, 4) ? (int)vrng_range(&g, 1, CL_N - 1) : client_kind) : CL_NONE;
            if (a.client != CL_NONE && q == client_from && client_from > 0) ++C.late_join;
            if (a.end == END_ABORT_CLIENT_HOLDS && a.client == CL_NONE) a.client = CL_HOLD;
            ++C.restarts_without_configure;
        } else {
        // per-acquisition variation (same shapes: the ring was sized for them)
        for (int i = 0; i < 2; ++i) {
            if (!a.s[i].on) continue;
            struct stream_cfg t; gen_stream(&g, &t, mode, is10);
            t.w = a.s[i].w; t.h = a.s[i].h; t.type = a.s[i].type;
            a.s[i] = t;
            if (is10 || (may_avg && vrng_chance(&g, 1, 2))) { a.s[i].avg = (uint32_t)vrng_range(&g, 2, 8); a.s[i].sto.keep_pixels = 1; if (a.s[i].type == SampleType_f32) a.s[i].type = SampleType_u16; }
            if (a.s[i].avg > 1 && a.s[i].N > 200) a.s[i].N = vrng_range(&g, 10, 200);
            if (!is10 && a.s[i].avg <= 1 && vrng_chance(&g, 1, 6)) { a.s[i].cam.shape_change_every = (int)vrng_range(&g, 1, 9); a.s[i].cam.alt_w = (uint32_t)vrng_range(&g, 1, a.s[i].w); a.s[i].cam.alt_h = (uint32_t)vrng_range(&g, 1, a.s[i].h); }
            if (!is10 && a.s[i].avg <= 1 && vrng_chance(&g, 1, 10)) a.s[i].cam.zero_every = (int)vrng_range(&g, 2, 7);
            if (vrng_chance(&g, 1, 6) && a.s[i].avg <= 1) { a.s[i].trig = 1; if (a.s[i].N > 60) a.s[i].N = vrng_range(&g, 3, 60); }
        }
        a.inject = vrng_chance(&g, 2, 3);
        // Once a client has mapped a stream its reader stays registered: a well-formed client keeps
        // polling that stream in every later acquisition (a registered reader that never reads again
        // pins the ring by design).
        a.client = have_client && q >= client_from ? (vrng_chance(&g, 1, 4) ? (int)vrng_range(&g, 1, CL_N - 1) : client_kind) : CL_NONE;
        if (a.client != CL_NONE && q == client_from && client_from > 0) ++C.late_join;
        a.client_stream = client_stream;
        a.end = vrng_chance(&g, 1, 3) ? END_STOP_NOW : (vrng_chance(&g, 1, 2) ? END_STOP_DELAY : END_WAIT_DONE_THEN_STOP);
        a.stop_delay_us = (int)vrng_range(&g, 0, 30000);
        if (a.client != CL_NONE && a.end != END_WAIT_DONE_THEN_STOP) {
            // stop() waits for completion and the client cannot poll while it is inside stop(): only
            // issue an early stop when the rest of the acquisition fits into the ring anyway
            const struct stream_cfg* cs_ = &a.s[a.client_stream];
            size_t per = frame_bytes(cs_->w, cs_->h, cs_->avg > 1 ? SampleType_f32 : cs_->type);
            if (cs_->N * per > g_cap_sink[a.client_stream] / 2) a.end = END_WAIT_DONE_THEN_STOP;
        }
        // C07: aborted acquisitions alternate with ordinary ones, which must then be complete and clean
        if ((is07 && (q % 2 == 0 || vrng_chance(&g, 1, 4))) || (is06 && vrng_chance(&g, 1, 3))) {
            a.end = (int)vrng_range(&g, END_ABORT_RANDOM, END_ABORT_AFTER_WRAP);
            if (a.end == END_ABORT_WAIT_TRIGGER) { a.s[0].trig = 1; a.s[0].avg = 0; }
            if (a.end == END_ABORT_CLIENT_HOLDS && a.client == CL_NONE) a.client = CL_HOLD;
            if (a.end == END_ABORT_WRITER_ASLEEP) { a.s[0].sto.append_min_us = 3000; a.s[0].sto.append_max_us = 9000; a.s[0].cam.pace_min_us = a.s[0].cam.pace_max_us = 0; a.s[0].cam.stall_every = 0; if (a.s[0].N < 50) a.s[0].N = 200; }
            if (a.end == END_ABORT_IN_APPEND) { a.s[0].sto.append_min_us = 2000; a.s[0].sto.append_max_us = 5000; }
            if (a.end != END_ABORT_AFTER_DONE && vrng_chance(&g, 1, 2)) for (int i = 0; i < 2; ++i) if (a.s[i].on && a.s[i].N < 1000) a.s[i].N = (uint64_t)-1; // endless until abort
            a.abort_from_thread = 1;
            if (vrng_chance(&g, 1, 10) && a.end != END_ABORT_WAIT_TRIGGER && a.end != END_ABORT_AFTER_DONE && a.s[0].type == SampleType_f32 &&
                frame_bytes(a.s[0].w, a.s[0].h, SampleType_f32) + 64 < g_cap_sink[0]) {
                a.s[0].avg = (uint32_t)vrng_range(&g, 2, 4); a.s[0].trig = 0; a.s[0].N = (uint64_t)-1; ++C.dead_filter_aborts; // unsupported input type: the filter thread exits
            }
        }
        if (is09 && q < nacq - 1 && vrng_chance(&g, 3, 4)) {
            int i = a.s[1].on ? (int)vrng_below(&g, 2) : 0;
            a.fault = 1 + (int)vrng_below(&g, 2);
            long k = vrng_chance(&g, 1, 3) ? (long)vrng_below(&g, 3) : (long)vrng_below(&g, a.s[i].N < 60 ? a.s[i].N : 60);
            if (a.s[i].avg > 1) ++C.faults_with_averaging;
            if (a.fault == 1) { a.s[i].cam.fail_at_call = k; ++C.faults_cam; }
            else {
                a.s[i].sto.fail_at_frame = a.s[i].avg > 1 ? k / a.s[i].avg : k; ++C.faults_sto;
                static const int fs[] = { DeviceState_AwaitingConfiguration, DeviceState_Armed, DeviceState_Closed };
                a.s[i].sto.fail_state = fs[vrng_below(&g, 3)];
                // ring fill level when the fault fires: empty / half / writer asleep on a full ring
                int fill = (int)vrng_below(&g, 3);
                if (fill == 2) { a.s[i].sto.append_min_us = 4000; a.s[i].sto.append_max_us = 9000; a.s[i].cam.pace_min_us = a.s[i].cam.pace_max_us = 0; a.s[i].cam.stall_every = 0; a.s[i].wdelay = 0; if (a.s[i].N < 100) a.s[i].N = 300; ++C.writer_asleep_at_fault; }
                else if (fill == 1) { a.s[i].sto.append_min_us = 500; a.s[i].sto.append_max_us = 1500; }
            }
            a.end = vrng_chance(&g, 1, 2) ? END_STOP_NOW : (vrng_chance(&g, 1, 2) ? END_ABORT_RANDOM : END_WAIT_DONE_THEN_STOP);
            a.s[i].trig = 0;
        }
        if (is05) { a.end = vrng_chance(&g, 1, 2) ? END_STOP_NOW : END_WAIT_DONE_THEN_STOP; }
        }
        if (g_cl_first_map_label >= 0 && a.client == CL_NONE) a.client = client_kind; // a registered reader must keep draining
        if (a.client != CL_NONE && g_cl_first_map_label < 0 && q > 0 && (a.end == END_STOP_NOW || a.end == END_STOP_DELAY || a.end == END_WAIT_DONE_THEN_STOP)) {
            // a client that joins in a later acquisition is handed what is left of the earlier ones first (known finding
            // late-join-sees-earlier-acquisition): how much is outstanding is then unknown, so it neither holds a region
            // nor sits inside an early stop() (stop waits for completion by design; only the client can make room)
            if (a.client == CL_HOLD) a.client = CL_EAGER;
            a.end = END_WAIT_DONE_THEN_STOP;
        }
        if (a.no_configure && a.client == CL_HOLD)
            for (int i = 0; i < 2; ++i) if (a.s[i].on && a.s[i].N > 60 && a.s[i].N != (uint64_t)-1) a.client = CL_EAGER; // the frame count cannot be changed without configuring
        if (a.client != CL_NONE && (a.end == END_STOP_NOW || a.end == END_STOP_DELAY)) {
            const struct stream_cfg* cs_ = &a.s[a.client_stream];
            size_t per = frame_bytes(cs_->w, cs_->h, cs_->avg > 1 ? SampleType_f32 : cs_->type);
            if (cs_->N * per > g_cap_sink[a.client_stream] / 2) a.end = END_WAIT_DONE_THEN_STOP;
        }
        if (a.client == CL_HOLD) for (int i = 0; i < 2; ++i) if (a.s[i].on && a.s[i].N > 60 && a.s[i].N != (uint64_t)-1) a.s[i].N = vrng_range(&g, 5, 60);
        if (only1 && a.s[0].on) { a.s[1] = a.s[0]; memset(&a.s[0], 0, sizeof a.s[0]); a.s[0].cam.fail_at_call = -1; a.s[0].sto.fail_at_frame = -1; a.client_stream = 1; }
        if (only1) ++C.only_stream1_acqs;
        vbuf_printf(&g_log, "acq%d%s{", q, a.no_configure ? "(no configure)" : "");
        for (int i = 0; i < 2; ++i)
            if (a.s[i].on)
                vbuf_printf(&g_log, "s%d:%ux%u t%d N=%lld avg=%u wd=%g trig=%d%s%s%s ", i, a.s[i].w, a.s[i].h, a.s[i].type, (long long)a.s[i].N, a.s[i].avg,
                            (double)a.s[i].wdelay, a.s[i].trig, a.s[i].cam.fail_at_call >= 0 ? " CAMFAULT" : "", a.s[i].sto.fail_at_frame >= 0 ? " STOFAULT" : "",
                            a.s[i].cam.shape_change_every ? " shapechg" : "");
        vbuf_printf(&g_log, "client=%s} ", k_client[a.client]);
        struct acq_result r;
        run_acquisition(&a, &g, q, &r, 1);
        g_prev_aborted = r.ended_by_abort || a.fault; g_prev_faulted = a.fault;
        prev = a;
        reset_logs();
    }
    ++g_api_calls;
    acquire_shutdown(g_rt); g_rt = 0;
    check_events("shutdown");
    if (!g_case_violated) check_all_closed("shutdown");
    ++C.cases;
    if ((verbose || icase % 37 == 0) && !g_case_violated) { printf("H {\"case\":\"%s\",\"oplog\":", g_casedesc); vjson_str(stdout, g_log.p); printf("}\n"); }
}

// ---- C08: API programs from a usage grammar ---------------------------------------------------------------------------------------
static void run_program(uint64_t seed, unsigned long icase, int verbose, int hostile)
{
    vrng g; vrng_seed(&g, seed, 0xC08 + (uint64_t)hostile, icase);
    snprintf(g_casedesc, sizeof g_casedesc, "%s %llu %lu 1", hostile ? "c08h" : "c08", (unsigned long long)seed, icase);
    g_hostile = 0;
    vbuf_reset(&g_log); g_case_violated = 0;
    M->prf_key = vrng_u64(&g);
    for (int i = 0; i < 2; ++i) { g_cap_sink[i] = 6000 + (size_t)vrng_below(&g, 60000); g_cap_filter[i] = 6000 + (size_t)vrng_below(&g, 60000); }
    g_sink[0] = g_sink[1] = 0; g_filter[0] = g_filter[1] = 0;
    atomic_store(&g_live_workers, 0);
    g_rt = acquire_init(reporter);
    if (!g_rt) { violation("C08", "init-failed", "acquire_init failed"); return; }
    g_cl_mapped = 0; g_cl_errors = 0; g_acq_label = 0; g_ev_checked = M->nevents; g_ninst = 0; g_cl_first_map_label = -1;
    reset_logs_(1);
    int ncalls = (int)vrng_range(&g, 10, 60);
    int configured = 0, running = 0; uint64_t sig = vhash_init(); int prev = 0;
    struct acq_cfg a; memset(&a, 0, sizeof a);
    for (int c = 0; c < ncalls && !g_case_violated; ++c) {
        unsigned op = (unsigned)vrng_below(&g, 100);
        int code;
        int live = atomic_load(&g_live_workers) > 0;
        if (!hostile && live && op < 40) op = 85; // disciplined family: configure/start only between acquisitions
        if (op < 22) { // configure (possibly other devices / streams, possibly while running)
            code = 1;
            if (live) g_hostile = 1;
            memset(&a, 0, sizeof a);
            gen_stream(&g, &a.s[0], "c08", 1); a.s[0].N = vrng_chance(&g, 1, 2) ? vrng_range(&g, 1, 80) : (uint64_t)-1;
            a.s[0].trig = vrng_chance(&g, 1, 5);
            if (vrng_chance(&g, 1, 3)) { gen_stream(&g, &a.s[1], "c08", 1); a.s[1].N = vrng_range(&g, 1, 80); }
            if (vrng_chance(&g, 1, 4)) { a.s[0].real_devices = 1; ++C.reconfig_switch; }
            else if (vrng_chance(&g, 1, 3)) { // device faults inside programs: the life cycle must stay disciplined
                if (vrng_chance(&g, 1, 2)) { a.s[0].cam.fail_at_call = (long)vrng_below(&g, 25); ++C.faults_cam; }
                else { a.s[0].sto.fail_at_frame = (long)vrng_below(&g, 25); a.s[0].sto.fail_state = DeviceState_AwaitingConfiguration; ++C.faults_sto; }
            }
            if (vrng_chance(&g, 1, 6)) { a.s[0].avg = (uint32_t)vrng_range(&g, 2, 4); if (a.s[0].type == SampleType_f32) a.s[0].type = SampleType_u8; }
            if (frame_bytes(a.s[0].w, a.s[0].h, SampleType_f32) + 64 > g_cap_sink[0] || frame_bytes(a.s[0].w, a.s[0].h, a.s[0].type) + 64 > g_cap_filter[0]) { a.s[0].w = 8; a.s[0].h = 8; }
            if (a.s[1].on && frame_bytes(a.s[1].w, a.s[1].h, a.s[1].type) + 64 > g_cap_sink[1]) { a.s[1].w = 8; a.s[1].h = 8; }
            vbuf_printf(&g_log, "configure(%s%s%s) ", a.s[0].real_devices ? "real" : "mock", a.s[1].on ? "+s1" : "", running ? ",while-running" : "");
            if (running) { // documented as allowed ("leave running"); devices must still see a disciplined life cycle
            }
            if (do_configure(&a) == AcquireStatus_Ok) configured = 1;
        } else if (op < 40) {
            code = 2;
            vbuf_printf(&g_log, "start%s ", running ? "(while-running)" : "");
            if (!configured) { continue; }
            ++g_api_calls;
            if (live) g_hostile = 1;
            if (running) { // start while running: must be rejected or harmless; never a second device start without stop
                acquire_start(g_rt);
            } else if (acquire_start(g_rt) == AcquireStatus_Ok) running = 1;
        } else if (op < 52 && !(running && (a.s[0].N == (uint64_t)-1))) { // stop() of an endless acquisition waits forever by design
            code = 3; vbuf_printf(&g_log, "stop "); if (!configured) continue; ++g_api_calls;
            for (int i = 0; i < 2; ++i) g_feed_triggers[i] = 1;
            if (g_cl_first_map_label >= 0) {
                // a registered monitor must keep draining until the acquisition is complete: it cannot poll from inside stop()
                double t0 = now_s();
                while (atomic_load(&g_live_workers) > 0 && now_s() - t0 < 10) {
                    client_step(0, CL_EAGER, &g, 0, 0);
                    for (int i = 0; i < 2; ++i) if (atomic_load(&M->cam[i].waiting_trigger)) acquire_execute_trigger(g_rt, (uint32_t)i);
                    nap_us(200);
                }
                if (atomic_load(&g_live_workers) > 0) { vbuf_printf(&g_log, "(abort instead) "); guarded_call(1, "acquire_abort", 20); running = 0; continue; }
            }
            guarded_call(0, "acquire_stop", 25); running = 0;
            if (acquire_get_state(g_rt) != DeviceState_Armed) violation("C08,C07", "not-armed-after-stop", "program: state %d after stop", (int)acquire_get_state(g_rt));
        } else if (op < 62) {
            code = 4; vbuf_printf(&g_log, "abort "); ++g_api_calls; guarded_call(1, "acquire_abort", 20); running = 0;
            if (configured && acquire_get_state(g_rt) != DeviceState_Armed) violation("C08,C07", "not-armed-after-stop", "program: state %d after abort", (int)acquire_get_state(g_rt));
        } else if (op < 72) {
            code = 5; vbuf_printf(&g_log, "trigger "); if (!configured) continue; ++g_api_calls; acquire_execute_trigger(g_rt, 0);
        } else if (op < 84) {
            code = 6; vbuf_printf(&g_log, "monitor "); if (!configured) continue; g_api_calls += 2;
            client_step(0, CL_EAGER, &g, 0, 0);
        } else if (op < 92) {
            code = 7; vbuf_printf(&g_log, "get_state ");
            ++g_api_calls;
            // Running may only be reported while workers are alive: sample the ledger before and after
            int live0 = atomic_load(&g_live_workers); unsigned long s0 = atomic_load(&g_worker_starts);
            enum DeviceState st = acquire_get_state(g_rt);
            if (st == DeviceState_Running && live0 == 0 && atomic_load(&g_live_workers) == 0 && s0 == atomic_load(&g_worker_starts))
                violation("C08", "running-without-workers", "program: acquire_get_state says Running with no worker thread alive");
        } else if (op < 96) {
            code = 8; vbuf_printf(&g_log, "get_configuration ");
            struct AcquireProperties p; memset(&p, 0, sizeof p); ++g_api_calls; acquire_get_configuration(g_rt, &p);
        } else if (op >= 98 && !hostile && configured && running && a.s[0].N != (uint64_t)-1 && (!a.s[1].on || a.s[1].N != (uint64_t)-1)) {
            // a client that lets a finite acquisition run to its end, watches acquire_get_state and starts again as soon as
            // the runtime no longer says Running (no stop in between; the repository's tests do this, too)
            code = 10; vbuf_printf(&g_log, "await-not-running-then-start ");
            double t0 = now_s(); int over = 0;
            while (now_s() - t0 < 10) {
                ++g_api_calls;
                if (acquire_get_state(g_rt) != DeviceState_Running) { over = 1; break; }
                if (g_cl_first_map_label >= 0) client_step(0, CL_EAGER, &g, 0, 0);
                for (int i = 0; i < 2; ++i) if (atomic_load(&M->cam[i].waiting_trigger)) acquire_execute_trigger(g_rt, (uint32_t)i);
                nap_us(50);
            }
            if (!over) { vbuf_printf(&g_log, "(still running) "); continue; }
            ++g_api_calls; ++C.restarts_on_state;
            running = acquire_start(g_rt) == AcquireStatus_Ok;
            vbuf_printf(&g_log, "[%s] ", running ? "started" : "refused");
        } else {
            code = 9; vbuf_printf(&g_log, "nap "); nap_us((long)vrng_range(&g, 100, 20000));
            // feed triggers so blocked cameras progress
            for (int i = 0; i < 2; ++i) if (atomic_load(&M->cam[i].waiting_trigger) && vrng_chance(&g, 1, 2)) acquire_execute_trigger(g_rt, (uint32_t)i);
        }
        sig = vhash_add(sig, (uint64_t)prev * 16 + (uint64_t)code); prev = code;
        ++C.c08_calls;
        check_events("program");
    }
    client_release(0);
    vbuf_printf(&g_log, "shutdown%s ", running ? "(while-running)" : "");
    ++g_api_calls;
    // shutdown at any point (it aborts first); guard it like abort
    {
        if (hostile) {
            // a wedged runtime may never come back from shutdown: bound it and leave the process
            alarm(20);
        }
        acquire_shutdown(g_rt); g_rt = 0;
        alarm(0);
    }
    check_events("shutdown");
    if (!g_case_violated) check_all_closed("shutdown");
    if (atomic_load(&g_live_workers) != 0) violation("C08,C07", "workers-alive-after-stop", "program: %d worker(s) alive after shutdown", atomic_load(&g_live_workers));
    reset_logs();
    ++C.cases; ++C.c08_programs; vset_add(&g_sigs, sig);
    if ((verbose || icase % 37 == 0) && !g_case_violated) { printf("H {\"case\":\"%s\",\"oplog\":", g_casedesc); vjson_str(stdout, g_log.p); printf("}\n"); }
}

int main(int argc, char** argv)
{
    if (argc < 5) { fprintf(stderr, "usage: %s mode seed first count [-v]\n", argv[0]); return 2; }
    setvbuf(stdout, 0, _IOFBF, 1 << 16);
    vset_init(&g_sigs, 1 << 12);
    g_mode = argv[1];
    uint64_t seed = strtoull(argv[2], 0, 10);
    unsigned long first = strtoul(argv[3], 0, 10), count = strtoul(argv[4], 0, 10);
    int verbose = argc > 5;
    g_loud = getenv("VERIF_LOUD") != 0;
    load_mock();
    double t_violated = 0;
    for (unsigned long c = first; c < first + count; ++c) {
        double t_case = now_s();
        if (!strcmp(g_mode, "c08")) run_program(seed, c, verbose, 0); else if (!strcmp(g_mode, "c08h")) run_program(seed, c, verbose, 1); else run_case(g_mode, seed, c, verbose);
        if (g_nviol > 8 || g_nviol_other > 24) break; // enough witnesses (observations for other properties' checks are bounded, too)
        if (g_case_violated) t_violated += now_s() - t_case;
        if (g_nviol >= 3 && t_violated > 90) break;   // witnesses that each cost a watchdog: three are enough
    }
    printf("S {\"mode\":\"%s\",\"cases\":%lu,\"violations\":%lu,\"acquisitions\":%lu,\"camera_frames\":%lu,\"storage_frames\":%lu,\"client_frames\":%lu,"
           "\"ring_wraps\":%lu,\"writer_sleeps\":%lu,\"stops\":%lu,\"aborts\":%lu,\"two_stream_acqs\":%lu,\"averaging_acqs\":%lu,\"averaged_windows_checked\":%lu,"
           "\"aborts_with_dead_filter\":%lu,\"camera_faults\":%lu,\"storage_faults\":%lu,\"faults_with_writer_asleep\":%lu,\"late_joins\":%lu,\"holds_across_end\":%lu,\"frame_sizes_not_div8\":%lu,"
           "\"shape_change_acqs\":%lu,\"zero_size_acqs\":%lu,\"real_device_acqs\":%lu,\"programs\":%lu,\"program_calls\":%lu,\"device_switches\":%lu,\"api_calls\":%d,"
           "\"device_events\":%zu,\"restarts_without_configure\":%lu,\"faults_with_averaging\":%lu,\"only_second_stream_acqs\":%lu,\"restarts_on_reported_state\":%lu,\"distinct\":%zu",
           g_mode, C.cases, g_nviol, C.acqs, C.frames_cam, C.frames_sto, C.frames_client, C.wraps, C.sleeps, C.stops, C.aborts, C.two_stream, C.avg_acqs,
           C.avg_windows, C.dead_filter_aborts, C.faults_cam, C.faults_sto, C.writer_asleep_at_fault, C.late_join, C.holds_across_end, C.nondiv8, C.shape_changes, C.zero_frames,
           C.real_dev_acqs, C.c08_programs, C.c08_calls, C.reconfig_switch, g_api_calls, M->nevents, C.restarts_without_configure, C.faults_with_averaging, C.only_stream1_acqs, C.restarts_on_state, g_sigs.n);
    for (int i = 0; i < END_N; ++i) printf(",\"end_%s\":%lu,\"end_%s_missed\":%lu", k_end[i], C.instants_hit[i], k_end[i], C.instants_missed[i]);
    for (int i = 0; i < CL_N; ++i) printf(",\"client_%s\":%lu", k_client[i], C.client_pat[i]);
    printf("}\n");
    const char* hp = getenv("VERIF_HASH_OUT");
    if (hp) vset_dump(&g_sigs, hp);
    fflush(stdout);
    return 0;
}
