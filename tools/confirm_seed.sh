#!/bin/bash
# Confirm an independently produced breaking change in its scratch worktree /tmp/seed/<ID>:
#   demo fails with the change, passes without it, the repository's suite still passes with it.
# Writes /tmp/seed/<ID>/_seed/confirm.txt
ID=$1; W=/tmp/seed/$ID; S=$W/_seed; OUT=$S/confirm.txt
cd $W || exit 2
: > $OUT
git -C $W diff --quiet -- . ':!_seed' && { echo "patch not applied in worktree" >> $OUT; git -C $W apply $S/patch.diff || exit 2; }
echo "== demo WITH the change" >> $OUT
( cd $S && timeout 1500 bash ./$( [ -f demo.sh ] && echo demo.sh || echo run_demo.sh ) ) > $S/demo_with.log 2>&1; RW=$?; echo "exit=$RW" >> $OUT; tail -3 $S/demo_with.log >> $OUT
git -C $W apply -R $S/patch.diff || { echo "cannot revert" >> $OUT; exit 2; }
echo "== demo WITHOUT the change" >> $OUT
( cd $S && timeout 1500 bash ./$( [ -f demo.sh ] && echo demo.sh || echo run_demo.sh ) ) > $S/demo_without.log 2>&1; RO=$?; echo "exit=$RO" >> $OUT; tail -3 $S/demo_without.log >> $OUT
git -C $W apply $S/patch.diff
echo "== repository test suite WITH the change" >> $OUT
cmake -G Ninja -S $W -B $W/_b -DCMAKE_BUILD_TYPE=RelWithDebInfo > $S/build.log 2>&1 && cmake --build $W/_b -j8 >> $S/build.log 2>&1
echo "build_exit=$?" >> $OUT
ctest --test-dir $W/_b -j6 --timeout 900 > $S/ctest.log 2>&1
grep -E "tests passed|\(Failed\)|\(Timeout\)|Subprocess" $S/ctest.log | sort | uniq -c >> $OUT
# re-run failures once, serially (OOM kills / known flaky tests)
if grep -q "tests failed" $S/ctest.log && ! grep -q " 0 tests failed" $S/ctest.log; then
  ctest --test-dir $W/_b --rerun-failed -j1 --timeout 900 > $S/ctest_rerun.log 2>&1
  echo "-- rerun of failures:" >> $OUT; grep -E "tests passed|\(Failed\)|\(Timeout\)" $S/ctest_rerun.log >> $OUT
fi
rm -rf $W/_b $S/_demo_build $S/demo/_build 2>/dev/null
echo "RESULT demo_with=$RW demo_without=$RO" >> $OUT
