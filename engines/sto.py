"""H6 -- storage-device harness orchestration (C14, C15, C16)."""
import json
import os
import shutil
import sys
import glob
from concurrent.futures import ThreadPoolExecutor

sys.path.insert(0, os.path.dirname(os.path.dirname(os.path.abspath(__file__))))
import build
from lib import vlib, bigtiff

SCRATCH_ROOT = os.path.join(build.CACHE, "tmp")

RULES = {
    "C14": "seeded cases: one raw device, 1-4 set/start/append*/stop cycles to fresh paths (relative, absolute, file:// "
           "spellings; zero-append cycles), frames of random shape/type (all size residues) grouped into random packets, "
           "75% of the cases with every pwrite split into random positive short writes by the interposed pwrite; in a third "
           "of the cases a second raw device interferes - it fails to start on a file locked by another holder, or has "
           "finished an acquisition of its own and is handed one more packet, or fails its first append on /dev/full - and is "
           "closed (or handed the late packet) right after, in the middle of, or after the appends of the device under test; plus acquisitions of 4.3-8 GiB (frames of "
           "0.3-1.2 GiB stored sparsely by the interposed pwrite, byte-identical to a full write). Oracle: "
           "file bytes == concatenation of the cycle's packets, exact size. Distinct = hash of (frames per cycle, URI "
           "spelling) sequences; every case is non-trivial (>=1 multi-packet cycle or a restart).",
    "C15": "seeded cases: tiff or tiff-json device, 1-3 start/stop cycles, N=1..40 frames of all 8 sample types and "
           "varying shapes, random packet grouping, metadata none/''/{}/nested/~8 KiB and metadata changing to empty, pixel "
           "scales incl. 0 and fractions, three URI spellings, short writes; plus files of 4.3-7 GiB (frames of 0.6-1.4 GiB, "
           "stored sparsely by the interposed pwrite, byte-identical to a full write). Every produced file is parsed by "
           "lib/bigtiff.py (independent reader): header, chain of exactly N IFDs ending in 0, all structures inside the "
           "file and pairwise disjoint, per-IFD shape/bits/format, strip prefix == pixels, description JSON ids and "
           "timestamps, user metadata on frame 0 / in metadata.json. Distinct = hash of (N, kind, metadata class) per cycle.",
    "C16": "fault enumeration: for each storage kind (raw, tiff, tiff-json, trash) x 8 life-cycle templates a fault-free "
           "run counts the OS-level open, flock and pwrite calls; then one child process per (open index, EACCES), per "
           "(flock index, EWOULDBLOCK) and per "
           "(pwrite index, mode) with mode in {persistent ENOSPC, single EIO, short-write-then-EIO, persistent zero-length "
           "writes}. Oracle per child: not killed by a signal / sanitizer (1 MiB stack so runaway recursion dies), no "
           "watchdog, device not Running at the end of an append during which a write failed, descriptor ledger "
           "(pwrite/flock/close only on descriptors the device opened and has not closed; none left open after close). "
           "Non-trivial = child in which the injected fault actually fired; distinct by (kind, template, site, mode).",
}

KINDS = ["raw", "tiff", "tiff-json", "trash"]
TEMPLATES = list(range(8))
PW_MODES = ["enospc", "eio", "shortfail", "zero"]


def _mk(tag):
    d = os.path.join(SCRATCH_ROOT, "sto-%s-%d" % (tag, os.getpid()))
    shutil.rmtree(d, ignore_errors=True)
    os.makedirs(d)
    return d


def run(prop, tier, replay=None):
    exe = build.build_sto("asan")
    if prop == "C16":
        return run_c16(tier, exe, replay)
    chk = vlib.Check(prop, tier)
    if replay:
        return _replay(chk, replay, exe)
    mode = "raw" if prop == "C14" else "tiff"
    per = {("C14", "quick"): 6000, ("C14", "thorough"): 400000, ("C15", "quick"): 450, ("C15", "thorough"): 12000}[(prop, tier)]
    root = _mk(prop)
    sub = vlib.splitmix(chk.seed, prop) % (1 << 31)
    # tiff: run in slices so that produced files are validated and deleted as we go
    slices = 1 if prop == "C14" else max(1, per // 150)
    per_slice = per // slices
    summaries = []
    files_checked = 0
    viol_keys = {}
    for sl in range(slices):
        workers = []
        for w in range(16):
            d = os.path.join(root, "w%d" % w)
            wk = vlib.Worker([exe, mode, sub, (w * slices + sl) * per_slice, per_slice, d], (mode, w, sl), timeout=1800,
                             env={"VERIF_HASH_OUT": os.path.join(root, "h%d_%d.hash" % (w, sl))})
            wk.hash_path = os.path.join(root, "h%d_%d.hash" % (w, sl))
            wk.case_is_args = True
            wk.replay_extra = {"scratch": "(fresh directory)"}
            workers.append(wk)
        if sl == 0:
            # files beyond 4 GiB (sparse on disk): one case per process
            nbig = 2 if tier == "quick" else 16
            bigmode = "tiffbig" if prop == "C15" else "rawbig"
            for b in range(nbig):
                d = os.path.join(root, "wbig%d" % b)
                hp = os.path.join(root, "hbig%d.hash" % b)
                wk = vlib.Worker([exe, bigmode, sub, b, 1, d], (bigmode, b, 0), timeout=1800, env={"VERIF_HASH_OUT": hp})
                wk.hash_path = hp
                wk.case_is_args = True
                wk.replay_extra = {"scratch": "(fresh directory)"}
                workers.append(wk)
        vlib.run_pool(workers)
        vlib.rerun_hung(chk, workers)
        ss, _ = vlib.collect(chk, workers, prop)
        summaries += ss
        if prop == "C15":
            exps = sorted(glob.glob(os.path.join(root, "w*", "expect_*.json")))

            def one(p):
                v, exp = bigtiff.check_expectation(p)
                bigtiff.cleanup(exp)
                os.unlink(p)
                return v, exp
            with ThreadPoolExecutor(max_workers=8) as ex:
                for v, exp in ex.map(one, exps):
                    files_checked += 1
                    for key, msg in v:
                        chk.violation(key, msg, {"cmd": [os.path.relpath(exe, vlib.VERIF)] + exp["case"].split() + ["<scratch-dir>"],
                                                  "cycle": exp["cycle"], "kind": exp["kind"], "oplog": exp["oplog"][-2500:]})
                    if len(chk.samples) < 4 and not v:
                        chk.samples.append({"case": exp["case"], "kind": exp["kind"], "frames": len(exp["frames"]),
                                            "oplog": exp["oplog"][-400:]})
        if len(chk.violations) > 50:
            break
    hashes = vlib.read_hashes(glob.glob(os.path.join(root, "*.hash")))
    shutil.rmtree(root, ignore_errors=True)
    tot = vlib.merge_counts(summaries, skip=("distinct",))
    if prop == "C15":
        tot["files_parsed_by_independent_reader"] = files_checked
        if files_checked < tot.get("files", 0):
            chk.fail("only %d of %d produced files were parsed" % (files_checked, tot.get("files", 0)))
    for k in (["short_writes", "file_uri_spellings", "empty_cycles", "cycles", "restarts_without_set", "locked_neighbours", "files_over_4gib"] if prop == "C14" else ["short_writes", "cycles", "files_over_4gib"]):
        if not tot.get(k):
            chk.fail("required event class never observed: %s" % k)
    chk.coverage = {"events": tot}
    chk.assumptions = ["each cycle writes to a fresh path (same-path overwrite semantics are outside the property)",
                       "frames handed to the TIFF writers are well-formed packets (C05)"]
    return chk.finish(int(tot.get("cycles", 0)), len(hashes), RULES[prop])


def _replay(chk, path, exe):
    rec = json.load(open(path))
    cmd = [c for c in rec["replay"]["cmd"] if c != "<scratch-dir>"]
    d = _mk("replay")
    wk = vlib.Worker([exe] + cmd[1:] + [d], "replay", timeout=600, env={"VERIF_LOUD": "1"}).run()
    sys.stdout.write(wk.out[-5000:]); sys.stderr.write(wk.err[-5000:])
    bad = bool([v for v in wk.records("V") if chk.prop in v.get("props", "")]) or vlib.sanitizer_report(wk.err) or wk.rc != 0
    for p in glob.glob(os.path.join(d, "expect_*.json")):
        v, exp = bigtiff.check_expectation(p)
        for key, msg in v:
            print("reader: %s %s" % (key, msg))
            bad = True
    shutil.rmtree(d, ignore_errors=True)
    if bad:
        print("VIOLATION property=%s replay=%s" % (chk.prop, path))
        return 1
    print("replay: no violation reproduced")
    return 0


# ---- C16 -----------------------------------------------------------------------------------------
def _child(exe, root, i, kind, tmpl, site_kind, site, mode):
    d = os.path.join(root, "c%d" % i)
    wk = vlib.Worker([exe, "fault", kind, tmpl, site_kind, site, mode, d], (kind, tmpl, site_kind, site, mode), timeout=120)
    wk.dir = d
    return wk


def run_c16(tier, exe, replay=None):
    chk = vlib.Check("C16", tier, level="fault_enumeration")
    root = _mk("C16")
    if replay:
        rec = json.load(open(replay))
        cmd = rec["replay"]["cmd"]
        wk = vlib.Worker([exe] + cmd[1:8] + [os.path.join(root, "r")], "replay", timeout=120, env={"VERIF_LOUD": "1"}).run()
        sys.stdout.write(wk.out[-5000:]); sys.stderr.write(wk.err[-5000:])
        shutil.rmtree(root, ignore_errors=True)
        if wk.records("V") or wk.rc != 0:
            print("VIOLATION property=C16 replay=%s" % replay)
            return 1
        print("replay: no violation reproduced")
        return 0
    # pass 1: fault-free runs count the sites
    counters = [_child(exe, root, i, k, t, "none", 0, "count") for i, (k, t) in
                enumerate((k, t) for k in KINDS for t in TEMPLATES)]
    vlib.run_pool(counters)
    sites = {}
    for wk in counters:
        s = wk.records("S")
        shutil.rmtree(wk.dir, ignore_errors=True)
        if wk.rc != 0 or not s or wk.records("V"):
            _judge(chk, wk)
            continue
        sites[(wk.tag[0], wk.tag[1])] = (s[-1]["opens"], s[-1]["pwrites"], s[-1].get("flocks", 0))
    # pass 2: one child per (site, mode); quick samples the large templates, thorough takes all
    cases = []
    for (k, t), (no, npw, nfl) in sorted(sites.items()):
        for i in range(no):
            cases.append((k, t, "open", i, "eacces"))
        for i in range(nfl):
            cases.append((k, t, "flock", i, "ewouldblock"))
        idx = list(range(npw))
        if False and tier == "quick" and npw > 12:
            keep = set(idx[:5] + idx[-4:])
            r = vlib.splitmix(chk.seed, "c16", k, t)
            while len(keep) < 12:
                r = vlib.splitmix(r, 1)
                keep.add(r % npw)
            idx = sorted(keep)
        for i in idx:
            for m in PW_MODES:
                cases.append((k, t, "pwrite", i, m))
    children = [_child(exe, root, 1000 + i, *c) for i, c in enumerate(cases)]
    vlib.run_pool(children)
    for wk in children:  # a hang is only believed when it repeats from a fresh process
        if wk.timed_out or wk.rc == -14:
            shutil.rmtree(wk.dir, ignore_errors=True)
            chk.notes.append("re-running %s after watchdog" % (wk.tag,))
            wk.timed_out = False
            wk.run()
    fired = 0
    distinct = set()
    total_sites = sum(sum(v) for v in sites.values())
    for wk in children:
        shutil.rmtree(wk.dir, ignore_errors=True)
        s = _judge(chk, wk)
        if s and s.get("faults_fired", 0) > 0:
            fired += 1
            distinct.add(wk.tag)
            if len(chk.samples) < 5 and wk.tag[0] != "trash":
                chk.samples.append({"case": s["case"], "oplog": s["oplog"]})
    shutil.rmtree(root, ignore_errors=True)
    chk.coverage = {"events": {"kinds": len(KINDS), "templates": len(TEMPLATES), "fault_free_runs": len(counters),
                               "os_call_sites_total": total_sites, "children": len(children), "children_where_fault_fired": fired,
                               "sites_per_kind_template": {"%s/%d" % k: v for k, v in sorted(sites.items())}}}
    chk.assumptions = ["faults are injected at the open/flock/pwrite calls of platform.c; fsync/close errors are not injected",
                       "a failure of the header write in start() is judged only for crash/hang/descriptor discipline "
                       "(the property speaks of the failing append)"]
    if not fired:
        chk.fail("no injected fault fired")
    exhaustive = True
    return chk.finish(len(children) + len(counters), len(distinct), RULES["C16"], exhaustive=exhaustive)


def _judge(chk, wk):
    relcmd = ["sto_harness"] + wk.cmd[1:]
    desc = "fault " + " ".join(str(x) for x in wk.tag)
    klass = "%s/t%s" % (wk.tag[0], wk.tag[1])
    for v in wk.records("V"):
        if "C16" in v.get("props", ""):
            chk.violation("%s:%s" % (v["key"], klass), v["msg"], {"cmd": relcmd, "oplog": v.get("oplog", "")})
    san = vlib.sanitizer_report(wk.err)
    if san:
        kind, top, excerpt = san
        wit = (wk.records("A") or [{}])[-1]
        chk.violation("%s:%s:%s" % (kind, top, klass), "%s in %s during %s" % (kind, top, desc),
                      {"cmd": relcmd, "oplog": wit.get("oplog", ""), "report": excerpt[:2500]})
        return None
    if wk.timed_out or wk.rc == -14:
        chk.violation("hang:%s" % klass, "device call did not return within the watchdog during %s" % desc, {"cmd": relcmd})
        return None
    if wk.rc != 0:
        chk.violation("crash:rc%d:%s" % (wk.rc, klass), "child died rc=%d during %s" % (wk.rc, desc),
                      {"cmd": relcmd, "stderr": wk.err[-1500:]})
        return None
    s = wk.records("S")
    if not s:
        chk.fail("child %s produced no summary" % desc)
        return None
    return s[-1]


def build_jobs():
    return [lambda: build.build_sto("asan")]
