#!/usr/bin/env python3
"""Generates /verif/MANIFEST.json from the table below (kept in one place so the
manifest is always valid and in step with check.py)."""
import json
import os
import sys

VERIF = os.path.dirname(os.path.dirname(os.path.abspath(__file__)))
sys.path.insert(0, VERIF)
import check  # noqa: E402

ALL = ["C%02d" % i for i in range(1, 19)]

ENGINES = [
    {"name": "H1-channel", "path": "harness/chan_harness.c + engines/chan.py",
     "serves_properties": ["C01", "C02", "C03"],
     "kind_free_text": "real channel.c driven op-by-op by a controller thread with the writer parked at the "
                       "link-time-interposed condition_variable_wait; byte-stream reference model; free-running "
                       "stress under ASan+UBSan and TSan"},
]

ENGINES.append({"name": "H3-hal", "path": "harness/hal_harness.c + engines/hal.py", "serves_properties": ["C11"],
                "kind_free_text": "real HAL camera.c/storage.c/driver.c against a recording, answer-scripted mock driver "
                                  "(device_manager_get_driver interposed at link time); bounded-exhaustive + random call "
                                  "sequences under ASan+UBSan"})

ENGINES.append({"name": "H5-props", "path": "harness/props_harness.cpp + engines/props.py", "serves_properties": ["C13"],
                "kind_free_text": "real props/storage.c driven by random API histories against a C++ value model; "
                                  "malloc/realloc/free of the code under test interposed at link time; ASan+UBSan; memcheck in thorough"})

ENGINES.append({"name": "H6-storage", "path": "harness/sto_harness.cpp + lib/bigtiff.py + engines/sto.py",
                "serves_properties": ["C14", "C15", "C16"],
                "kind_free_text": "real raw/tiff/tiff-json/trash devices driven through the HAL; open/pwrite/close/flock of "
                                  "platform.c interposed at link time (descriptor ledger, short writes, injected faults); "
                                  "independent BigTIFF reader in Python; one child process per fault"})

ENGINES.append({"name": "H7-simcam", "path": "harness/simcam_harness.c + engines/simcam.py", "serves_properties": ["C17", "C18"],
                "kind_free_text": "real simulated.camera.c (+AVX2 binning, pattern fill) driven through the HAL camera "
                                  "functions under ASan+UBSan; consumer/trigger/stopper threads with delays injected at the "
                                  "camera's own lock/wait/sleep calls (link-time interposition)"})

ENGINES.append({"name": "H4-devicemanager", "path": "harness/dm_harness.cpp + harness/mockdrv_dm.c + engines/dm.py",
                "serves_properties": ["C12"],
                "kind_free_text": "real device.manager.cpp/loader.c/HAL + the real acquire-driver-common module and mock "
                                  "driver modules laid out next to a copy of the harness executable; python re as the "
                                  "reference for whole-name matching; one child process per library layout under ASan+UBSan"})

ENGINES.append({"name": "H2-runtime", "path": "harness/rt_harness.c + harness/rt_mockdrv.c + harness/rt_mock.h + engines/rt.py",
                "serves_properties": ["C04", "C05", "C06", "C07", "C08", "C09", "C10"],
                "kind_free_text": "the real acquire-video-runtime + HAL with queue capacities substituted at link time "
                                  "(1.2-20 frames), a thread_create trampoline as worker ledger, wrapped channel calls for delay "
                                  "injection / instant detection, and a recording, fault-injecting mock driver module "
                                  "(libacquire-driver-hdcam.so) next to the executable; ASan+UBSan build"})

_RT_NOTE = ("queue capacities are substituted, everything else is repository code; schedules are sampled, not enumerated; a hang is a "
            "violation only with a quiescence witness and after it repeated in a fresh process; trusts the mock driver (~350 lines)")

CHECKS = {
    "C01": dict(
        engine="H1-channel", technique="runtime monitoring: reference-model oracle over controlled interleavings + sanitizer stress",
        level="exploration", design_ref="DESIGN.md section 4 / H1 / C01",
        text="Every channel call of >10^5 seeded histories (tiny rings, 1-8 readers, aborts, partial consumption, "
             "toggles) is compared with an executable byte-stream model: slice content, addresses, join boundary, "
             "'empty means drained', final no-loss. Because every channel operation is atomic under one lock, the "
             "sampled sequential orders are the interleavings; free-running threads under ASan/TSan test that "
             "assumption. Held-on-observed, not a proof.",
        note="trusts pthread primitives, the harness's model (~150 lines) and that op order == interleaving (checked by TSan)"),
    "C02": dict(
        engine="H1-channel", technique="runtime monitoring: address-interval invariant at every write_map + snapshot compare + TSan",
        level="exploration", design_ref="DESIGN.md section 4 / H1 / C02",
        text="At every write_map return the region is checked (before it is written) against the buffer bounds, all "
             "mapped reader slices and all unconsumed committed bytes of the reference model; mapped slices are "
             "snapshotted and re-compared at unmap; TSan watches the free-running mode for unsynchronised access.",
        note="same trusted base as C01; ASan red zones only see overruns adjacent to the ring allocation"),
    "C03": dict(
        engine="H1-channel", technique="runtime monitoring: bounded-progress oracle with injected park at the wait entry (lost wake-up window)",
        level="exploration", design_ref="DESIGN.md section 4 / H1 / C03",
        text="Liveness restated as bounded progress: the writer is parked inside the interposed wait (lock held, "
             "predicate evaluated) while another thread issues the consuming unmap / refusal; it must return once "
             "that operation has completed. In Mode A a sleeping writer must return as soon as all readers are "
             "drained or writes are refused, every toggle must notify, drains are bounded by 3 calls. Hangs become "
             "violations only with a logical witness (racing op finished, writer still inside the wait, probe "
             "notification releases it).",
        note="fair pthread scheduling assumed; only suspension points that exist in the code are used; unbounded 'eventually' is not decided"),
    "C11": dict(
        engine="H3-hal", technique="runtime monitoring: protocol automaton in a mock driver + ASan on freed device objects, bounded-exhaustive call sequences",
        level="exploration", design_ref="DESIGN.md section 4 / H3 / C11",
        text="Every HAL call sequence up to length 5 (thorough: camera 7, storage 6) x every driver answer is executed "
             "against a mock driver that enforces 'no stop without successful start, no frame/append outside running, "
             "one close per open, nothing after close'; device objects are freed in close so ASan reports any later "
             "touch; the HAL's reported state is compared with the state implied by the driver's answers after every "
             "call. Longer random sequences add get/meta/reserve/re-open and open/describe failures. Exhaustive only "
             "within the stated length bound.",
        note="devices with missing interface functions are outside the quantifier; ASan quarantine bounds use-after-free detection"),
    "C13": dict(
        engine="H5-props", technique="runtime monitoring: value-model oracle + allocator-event ledger (link-time malloc/free wrappers) + ASan",
        level="exploration", design_ref="DESIGN.md section 4 / H5 / C13",
        text="10^4-10^6 random histories over 4 objects; after every call all fields of all live objects are compared with "
             "a value model, pointer sets must be disjoint, copy sources unchanged; the allocator ledger proves "
             "exactly-once release per history; ASan catches over-reads of exact-size unterminated inputs and "
             "use-after-free; memcheck (thorough) looks for uninitialised reads.",
        note="trusts the ~60-line value model; no allocation-failure injection; copy onto itself is outside the quantifier"),
    "C14": dict(
        engine="H6-storage", technique="runtime monitoring: byte-exact file oracle under injected short writes (interposed pwrite)",
        level="exploration", design_ref="DESIGN.md section 4 / H6 / C14",
        text="10^5 cycles of set/start/append*/stop on real raw devices with random frame sizes, packet groupings, URI "
             "spellings, repeated cycles per device (with and without re-configuration), random short writes injected "
             "below file_write, and a neighbouring raw device that fails to start on a locked file and is closed at "
             "various points; the resulting file must equal the concatenation of the appended packets byte for byte.",
        note="fresh path per cycle; real filesystem of the sandbox; write errors are C16's"),
    "C15": dict(
        engine="H6-storage", technique="runtime monitoring: independent BigTIFF reader as offline oracle over generated acquisitions",
        level="exploration", design_ref="DESIGN.md section 4 / H6 / C15",
        text="Every file produced by tiff and tiff-json over thousands of generated acquisitions (all sample types, "
             "N=1..40, packet groupings, metadata variants incl. change-to-empty, pixel scales, URI spellings, repeated "
             "cycles, short writes, plus sparse files of 4.3-7 GiB) is parsed by a reader written from the BigTIFF layout: header, exact chain length, "
             "zero terminator, bounds, pairwise disjoint structures, per-frame shape/format, strip bytes, description "
             "JSON ids/timestamps, user metadata placement.",
        note="trusts lib/bigtiff.py (~150 lines) and Python's json; tag order is not required (the property does not state it)"),
    "C16": dict(
        engine="H6-storage", technique="runtime monitoring: fault enumeration over every OS-level open/flock/pwrite index x failure mode, one process per fault, descriptor ledger",
        level="fault_enumeration", design_ref="DESIGN.md section 4 / H6 / C16",
        text="All (kind x life-cycle template x open/flock/pwrite call index x mode) combinations are executed, each in its own "
             "process with a 1 MiB stack and a watchdog: crash, sanitizer report, runaway recursion or repeated hang is a "
             "violation; the device must not be Running at the end of an append in which a write failed; every "
             "pwrite/flock/close must target a descriptor the device opened and has not closed, and none may stay open "
             "after close. Exhaustive over the enumerated templates only.",
        note="single-fault and persistent-fault modes at pwrite/open/flock; close/fsync errors not injected; 8 templates"),
    "C17": dict(
        engine="H7-simcam", technique="runtime monitoring: ASan+UBSan over generated configurations + shape/read-back/fill-coverage oracles",
        level="exploration", design_ref="DESIGN.md section 4 / H7 / C17",
        text="Thousands of generated configuration sequences (3 kinds x binning x 8 types x boundary shapes x offsets, "
             "re-configuration and restarts) run the real render/bin/copy code under ASan+UBSan with exact-size caller "
             "buffers; reported shape, strides and read-back values are compared with the clamped request and every "
             "image byte must be overwritten within 6 differently pre-filled frames.",
        note="AVX2 build as in the repository; ASan cannot see intra-object or far out-of-bounds accesses; maximal 8192x8192 renders only in thorough"),
    "C18": dict(
        engine="H7-simcam", technique="runtime monitoring: multi-threaded trace oracle (ids, trigger accounting) with injected delays; bounded-progress check for stop",
        level="exploration", design_ref="DESIGN.md section 4 / H7 / C18",
        text="Consumer, trigger and stopper threads drive 3-6 runs per camera (re-configured or started again as is) with delays injected at the camera's own "
             "suspension points; the trigger counter is bumped before each trigger call so 'frames <= triggers', 'no "
             "frame without trigger' and 'id < triggers since start' are sound under every schedule; ids must strictly "
             "increase; stop must return and release a pending get_frame (watchdog + confirmation re-run).",
        note="schedules are sampled, not enumerated; liveness only as bounded progress; free-running pacing is counted, not judged"),
    "C12": dict(
        engine="H4-devicemanager", technique="runtime monitoring: differential oracle (python re.fullmatch over the enumerated names) + crash/ASan monitoring per library layout",
        level="exploration", design_ref="DESIGN.md section 4 / H4 / C12",
        text="For each layout of present/absent/broken driver libraries the real manager enumerates devices; thousands of "
             "selection inputs (grammar-generated patterns, escaped names in random case, NUL padding, random and malformed "
             "byte strings, every kind value, NULL/length combinations, out-of-range indices) are run in a child process; "
             "results must equal the first enumerated whole-name case-insensitive match computed independently, errors "
             "must be statuses (no signal, no escaping exception, no ASan/UBSan report), and every enumerated camera/"
             "storage identifier must open to a device of that kind and name.",
        note="the grammar of class (i) avoids constructs on which ECMAScript and python regexes differ; raw-byte inputs have the weaker 'Ok => enumerated device of that kind' oracle"),
    "C04": dict(
        engine="H2-runtime", technique="runtime monitoring: camera-log vs storage-log equality oracle (recording mock driver) over wrapping queues with injected delays",
        level="exploration", design_ref="DESIGN.md section 4 / H2 / C04",
        text="Hundreds of finite acquisitions per run on queues of a few frames: the storage device's log must equal the camera's "
             "log frame by frame (id, hardware id, shape, pixel hash) for every stream, for every pacing / latency / write-delay / "
             "client combination, with delays injected between channel operations.", note=_RT_NOTE),
    "C05": dict(
        engine="H2-runtime", technique="runtime monitoring: packet-structure invariant checked at every storage append and client map",
        level="exploration", design_ref="DESIGN.md section 4 / H2 / C05",
        text="Every packet handed to the mock storage and every region mapped by the client is walked: alignment, size field, exact "
             "chaining, shape equality with the camera's frame; shapes cover all size residues mod 8, all sample types, mid-run "
             "shape changes, wrap positions, partial client consumption, and acquisitions wound down by a camera or storage fault.", note=_RT_NOTE),
    "C06": dict(
        engine="H2-runtime", technique="runtime monitoring: client-side sequence oracle with epoch-tagged frames across acquisitions",
        level="exploration", design_ref="DESIGN.md section 4 / H2 / C06",
        text="A polling client (eager, slow, partial, holding, late-joining) across 2-8 acquisitions ended by stop or abort: ids "
             "consecutive, pixels identical to the camera's, nothing from an earlier epoch, nothing after stop/abort returned, "
             "map/unmap keep succeeding; storage must be unaffected. One known finding (late join) is listed in known_findings.txt.",
        note=_RT_NOTE + "; a registered client is assumed to keep polling"),
    "C07": dict(
        engine="H2-runtime", technique="runtime monitoring: abort injected at hook-detected instants + post-condition oracle + quiescence-witness hang detection",
        level="exploration", design_ref="DESIGN.md section 4 / H2 / C07",
        text="Abort is fired from a second thread at instants detected by interposition (writer asleep on a full queue, storage "
             "inside append, camera waiting for a trigger, client holding a region, right after a wrap, after completion, dead "
             "filter thread) and at random delays; abort must return, workers gone, camera stopped, Armed, gap-free correct "
             "prefix in storage, and the next acquisition complete and clean.", note=_RT_NOTE),
    "C08": dict(
        engine="H2-runtime", technique="runtime monitoring: device life-cycle automaton over the recording driver's event log for grammar-generated API programs",
        level="exploration", design_ref="DESIGN.md section 4 / H2 / C08",
        text="Random API programs over mock and real common devices; an automaton over the mock driver's event log enforces "
             "open/close/start/stop/append discipline per device instance (freed instances: ASan), the state function is checked "
             "against the worker ledger. Programs that configure/start while running are a separate family whose failures are "
             "one known finding.", note=_RT_NOTE),
    "C09": dict(
        engine="H2-runtime", technique="runtime monitoring: fault injection at device call index k (camera get_frame / storage append) x queue fill level, post-fault oracle",
        level="exploration", design_ref="DESIGN.md section 4 / H2 / C09",
        text="Camera and storage faults at sampled frame indices with the queue empty, half full or the writer asleep on a full "
             "queue, ended by stop or abort: nothing appended after the failure, camera stopped, stop/abort return, not Running "
             "once workers exited, and the next fault-free acquisition passes the C04 oracle (no stale frames).", note=_RT_NOTE),
    "C10": dict(
        engine="H2-runtime", technique="runtime monitoring: numeric reference oracle (exact window means recomputed from the camera's pixel function)",
        level="exploration", design_ref="DESIGN.md section 4 / H2 / C10",
        text="Averaging k=2..8 over integer types with the output queue holding 1.5-6 frames so accumulators land on reused "
             "memory; storage must receive ids 0,k,2k,... with every pixel within 1 ulp of the exact mean, floor(N/k) windows "
             "and at most one trailing frame, over repeated acquisitions on one runtime.", note=_RT_NOTE),
}

PENDING_REASON = "check not built yet in this round (planned in DESIGN.md section 4; will be claimed once its harness exists)"


def main():
    checks = []
    for pid in ALL:
        if pid not in CHECKS or pid not in check.ENGINE_OF:
            continue
        c = CHECKS[pid]
        checks.append({
            "property_id": pid,
            "quick_cmd": "python3 check.py %s --tier quick" % pid,
            "thorough_cmd": "python3 check.py %s --tier thorough" % pid,
            "evidence_file": "evidence/%s.json" % pid,
            "replay_cmd_template": "python3 check.py %s --replay {path}" % pid,
            "engine": c["engine"],
            "level_claimed": {"category": c["level"], "text": c["text"], "design_ref": c["design_ref"]},
            "level_note": c["note"],
            "technique": c["technique"],
        })
    claimed = {c["property_id"] for c in checks}
    na = [{"property_id": p, "reason": NOT_APPLICABLE.get(p, PENDING_REASON)} for p in ALL if p not in claimed]
    hooks_commits = HOOK_COMMITS
    m = {
        "version": 1,
        "setup_cmd": "python3 build.py --all",
        "hooks": {
            "guard": "ACQUIRE_COMMON_VERIF",
            "enable": "defined (-DACQUIRE_COMMON_VERIF=1) by /verif/build.py on every compile of /repo sources; "
                      "instrumentation is otherwise link-time (-Wl,--wrap=...) and a mock driver library, see DESIGN.md section 3",
            "baseline_off_cmd": "cmake -G Ninja -S /repo -B /repo/_build >/dev/null && cmake --build /repo/_build >/dev/null && "
                                "ctest --test-dir /repo/_build -j8 --timeout 900",
            "source_commits": hooks_commits,
            "add_only": True,
        },
        "engines": ENGINES,
        "checks": checks,
        "not_applicable": na,
        "notes": "All checks are runtime monitoring of the real code built from /repo's working tree (one sanitizer family "
                 "per build). Exit 2 = inconclusive/harness failure. known_findings.txt lists fixed/known defects.",
    }
    with open(os.path.join(VERIF, "MANIFEST.json"), "w") as fh:
        json.dump(m, fh, indent=1)
    print("MANIFEST.json: %d checks, %d not_applicable" % (len(checks), len(na)))


NOT_APPLICABLE = {}
HOOK_COMMITS = []

if __name__ == "__main__":
    main()
