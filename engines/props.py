"""H5 -- StorageProperties model harness orchestration (C13)."""
import os
import shutil
import sys

sys.path.insert(0, os.path.dirname(os.path.dirname(os.path.abspath(__file__))))
import build
from lib import vlib

RULE = ("seeded random histories of 20-80 calls over a pool of 4 StorageProperties objects: init (0-6 dimensions), set_uri, "
        "set_external_metadata, set_access_key_and_secret, set_dimension (valid and invalid index/kind, re-setting named "
        "dimensions), set_enable_multiscale, copy between any two live objects in either direction, destroy; strings are "
        "NULL / empty / 1 B..64 KiB / exact-size unterminated heap blocks. After every call every live object is compared "
        "field by field with a C++ value model (length, content, terminator, ownership), all heap pointers of all live "
        "objects must be pairwise distinct, the source of a copy must be unchanged pointer for pointer, and malloc/realloc/"
        "free of the code under test are recorded through link-time wrappers: no free of a non-live block, and an empty "
        "ledger once every object is destroyed. Non-trivial/distinct = distinct operation-signature hashes of histories "
        "(every history contains copies; counted by the harness).")


def run(prop, tier, replay=None):
    chk = vlib.Check(prop, tier)
    exe = build.build_props("asan")
    if replay:
        return vlib.generic_replay(chk, replay, lambda _: exe)
    tmp = os.path.join(build.CACHE, "tmp", "props-%d" % os.getpid())
    os.makedirs(tmp, exist_ok=True)
    per = 4000 if tier == "quick" else 150000
    sub = vlib.splitmix(chk.seed, "props") % (1 << 31)
    workers = []
    for w in range(16):
        wk = vlib.Worker([exe, sub, w * per, per], ("props", w), timeout=3000,
                         env={"VERIF_HASH_OUT": os.path.join(tmp, "%d.hash" % w)})
        wk.hash_path = os.path.join(tmp, "%d.hash" % w)
        wk.case_is_args = True
        workers.append(wk)
    if tier == "thorough":
        # second opinion on uninitialised reads: uninstrumented build under valgrind memcheck
        plain = build.build_props("plain")
        for w in range(4):
            wk = vlib.Worker(["valgrind", "-q", "--error-exitcode=79", "--leak-check=no", "--track-origins=no",
                              plain, sub + 1, w * 400, 400], ("memcheck", w), timeout=3000)
            wk.hash_path = os.path.join(tmp, "mc%d.hash" % w)
            workers.append(wk)
    vlib.run_pool(workers)
    vlib.rerun_hung(chk, workers)
    for wk in workers:
        if wk.tag[0] == "memcheck" and wk.rc == 79:
            chk.violation("memcheck:" + (vlib.re.search(r"==\d+== ([A-Z][^\n]{5,60})", wk.err).group(1).strip().replace(" ", "-")
                                          if vlib.re.search(r"==\d+== ([A-Z][^\n]{5,60})", wk.err) else "error"),
                          "valgrind memcheck reported an error", {"cmd": wk.cmd, "stderr": wk.err[-3000:]})
            wk.rc = 0
    summaries, _ = vlib.collect(chk, workers, prop)
    tot = vlib.merge_counts(summaries, skip=("distinct_histories",))
    distinct = len(vlib.read_hashes([w.hash_path for w in workers]))
    shutil.rmtree(tmp, ignore_errors=True)
    for k in ("copies_from_source_with_dims", "copies_shrinking_dims", "dimension_resets", "rejected_set_dimension", "frees"):
        if not tot.get(k):
            chk.fail("required event class never observed: %s" % k)
    chk.coverage = {"events": tot, "memcheck_histories": 1600 if tier == "thorough" else 0}
    chk.assumptions = ["dimension names passed to set_dimension are NUL-terminated (its contract; it calls strlen)",
                       "copy is only generated between two distinct live objects",
                       "allocation failure (malloc returning NULL) is not injected"]
    return chk.finish(int(tot.get("cases", 0)), distinct, RULE)


def build_jobs():
    return [lambda: build.build_props("asan")]
