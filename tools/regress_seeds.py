#!/usr/bin/env python3
"""Apply every kept seeded change in turn (tools/trymut.py --patch), run the quick check of its
property and report which ones are (still) caught.  usage: regress_seeds.py [ID-prefix ...]
Evidence files are overwritten by these runs: re-run tools/runall.py quick afterwards."""
import os, re, subprocess, sys, time
root = "/verif/seeded"
ids = sorted(os.listdir(root))
if len(sys.argv) > 1:
    ids = [i for i in ids if any(i.startswith(p) for p in sys.argv[1:])]
missed = []
for i in ids:
    prop = i[:3]
    t = time.time()
    r = subprocess.run(["python3", "/verif/tools/trymut.py", "--patch", os.path.join(root, i, "patch.diff"), prop],
                       capture_output=True, text=True)
    m = re.search(r"== %s rc=(-?\d+)" % prop, r.stdout)
    rc = int(m.group(1)) if m else None
    keys = re.findall(r"key=(\S+)", r.stdout)
    print("%-5s rc=%s %4.0fs %s" % (i, rc, time.time() - t, ",".join(keys[:4])), flush=True)
    expected_miss = False
    try:
        import json
        expected_miss = "NOT REPORTED" in json.load(open(os.path.join(root, i, "meta.json")))["what_i_ran"]["check_outcome"]
    except Exception:
        pass
    if rc != 1 and not expected_miss:
        missed.append(i)
    elif rc != 1:
        print("      (recorded as not reported by this property's check, see meta.json)")
print("MISSED:", missed)
