"""Common orchestration for the /verif checks: worker pool, record parsing, known
findings, replay files, evidence, exit codes.

Exit codes of a check: 0 held on everything explored (or only KNOWN-FINDINGs),
1 at least one VIOLATION, 2 harness failure / inconclusive.
"""
import json
import os
import re
import subprocess
import sys
import time
from concurrent.futures import ThreadPoolExecutor

VERIF = os.path.dirname(os.path.dirname(os.path.abspath(__file__)))
EVIDENCE = os.path.join(VERIF, "evidence")
REPLAYS = os.path.join(VERIF, "replays")
KNOWN = os.path.join(VERIF, "known_findings.txt")
NCPU = int(os.environ.get("VERIF_JOBS", "16"))

SAN_ENV = {
    "ASAN_OPTIONS": "abort_on_error=0:halt_on_error=1:detect_leaks=0:exitcode=77:"
                    "allocator_may_return_null=1:detect_stack_use_after_return=0",
    "UBSAN_OPTIONS": "print_stacktrace=1:halt_on_error=1:exitcode=78",
    "TSAN_OPTIONS": "halt_on_error=1:exitcode=66:second_deadlock_stack=1",
}


def seed():
    try:
        return int(os.environ.get("VERIF_SEED", "1"))
    except ValueError:
        return 1


def splitmix(*parts):
    x = 0x9E3779B97F4A7C15
    for p in parts:
        if isinstance(p, str):
            p = int.from_bytes(p.encode(), "little") & ((1 << 64) - 1)
        x = (x * 0xBF58476D1CE4E5B9 + p + 0x632BE59BD9B4E019) & ((1 << 64) - 1)
        x ^= x >> 31
    return x & ((1 << 63) - 1)


class Worker:
    """One subprocess of a check."""

    def __init__(self, cmd, tag, timeout=600, env=None, cwd=None, stdin=None):
        self.cmd, self.tag, self.timeout = [str(c) for c in cmd], tag, timeout
        self.env, self.cwd, self.stdin = env or {}, cwd, stdin
        self.rc = None
        self.out = ""
        self.err = ""
        self.timed_out = False
        self.wall = 0.0

    def run(self):
        env = dict(os.environ)
        env.update(SAN_ENV)
        env.update(self.env)
        t0 = time.time()
        self.timed_out = False
        try:
            p = subprocess.run(self.cmd, stdout=subprocess.PIPE, stderr=subprocess.PIPE, env=env,
                               cwd=self.cwd, timeout=self.timeout, input=self.stdin,
                               text=True, errors="replace")
            self.rc, self.out, self.err = p.returncode, p.stdout, p.stderr
        except subprocess.TimeoutExpired as e:
            self.timed_out = True
            self.rc = -999
            self.out = (e.stdout or b"").decode(errors="replace") if isinstance(e.stdout, bytes) else (e.stdout or "")
            self.err = (e.stderr or b"").decode(errors="replace") if isinstance(e.stderr, bytes) else (e.stderr or "")
        self.wall = time.time() - t0
        return self

    def records(self, prefix):
        out = []
        for line in self.out.splitlines():
            if line.startswith(prefix + " {"):
                try:
                    out.append(json.loads(line[len(prefix) + 1:]))
                except ValueError:
                    pass
        return out


def run_pool(workers, jobs=None):
    with ThreadPoolExecutor(max_workers=jobs or NCPU) as ex:
        return list(ex.map(lambda w: w.run(), workers))


# ---- sanitizer report parsing ------------------------------------------------------------
_FRAME = re.compile(r"#\d+ (?:0x[0-9a-f]+ in )?(\S+) (/\S+?):(\d+)")


def sanitizer_report(text):
    """Return (kind, top repo function, excerpt) if text holds a sanitizer report."""
    m = re.search(r"ERROR: AddressSanitizer: (\S+)", text)
    kind = None
    if m:
        kind = "asan:" + m.group(1)
    elif "WARNING: ThreadSanitizer: data race" in text:
        kind = "tsan:data-race"
    elif "WARNING: ThreadSanitizer:" in text:
        kind = "tsan:" + re.search(r"WARNING: ThreadSanitizer: ([^(\n]+)", text).group(1).strip().replace(" ", "-")
    else:
        m = re.search(r"runtime error: ([^\n]+)", text)
        if m:
            kind = "ubsan:" + re.sub(r"0x[0-9a-f]+|\d+", "N", m.group(1))[:60].strip().replace(" ", "-")
        elif "LeakSanitizer: detected memory leaks" in text:
            kind = "lsan:leak"
    if not kind:
        return None
    funcs = []
    for fm in _FRAME.finditer(text):
        fn, path = fm.group(1), fm.group(2)
        if path.startswith("/repo/") or "/repo/" in path:
            funcs.append(fn)
    if kind == "tsan:data-race":
        # one function per stack: first repo frame after each "  Write of"/"  Read of"/"Previous"
        stacks = re.split(r"\n\s*\n", text)
        fs = []
        for st in stacks[:3]:
            for fm in _FRAME.finditer(st):
                if "/repo/" in fm.group(2):
                    fs.append(fm.group(1))
                    break
        top = "|".join(sorted(set(fs))) if fs else "?"
    else:
        top = funcs[0] if funcs else "?"
    start = text.find("==")
    return kind, top, text[max(0, start):][:4000]


# ---- known findings --------------------------------------------------------------------------
def load_known():
    """known_findings.txt, one finding per line:
         known: property=<id> key=<violation key> <what fails>      (suppresses exactly that key)
         fixed: property=<id> <commit> <what failed>                (suppresses nothing)
    The file is never written at run time."""
    known, fixed = {}, {}
    if os.path.exists(KNOWN):
        for line in open(KNOWN):
            line = line.strip()
            if not line or line.startswith("#"):
                continue
            m = re.match(r"known:\s+property=(\S+)\s+key=(\S+)\s*(.*)", line)
            if m:
                known[(m.group(1), m.group(2))] = {"what": m.group(3)}
                continue
            m = re.match(r"fixed:\s+property=(\S+)\s+(\S+)\s*(.*)", line)
            if m:
                fixed[(m.group(1), m.group(2))] = {"what": m.group(3)}
    return known, fixed


class Check:
    """Collects what one check run observed and turns it into evidence + exit code."""

    def __init__(self, prop, tier, level="exploration"):
        self.prop, self.tier, self.level = prop, tier, level
        self.seed = seed()
        self.t0 = time.time()
        self.violations = []     # dicts: key, msg, replay(dict)
        self.failures = []       # harness failures / inconclusive
        self.coverage = {}
        self.samples = []
        self.assumptions = []
        self.notes = []

    def violation(self, key, msg, replay):
        self.violations.append({"key": key, "msg": msg, "replay": replay})

    def fail(self, what):
        self.failures.append(what)

    def finish(self, evaluations, distinct_nontrivial, rule, extra=None, exhaustive=None):
        known, _ = load_known()
        os.makedirs(EVIDENCE, exist_ok=True)
        os.makedirs(REPLAYS, exist_ok=True)
        new, seen_known = [], {}
        for v in self.violations:
            k = (self.prop, v["key"])
            if k in known:
                seen_known.setdefault(k, v)
            else:
                new.append(v)
        for (p, key), v in seen_known.items():
            print("KNOWN-FINDING: property=%s %s -- %s" % (p, key, known[(p, key)].get("what", "")))
        reported = {}
        for v in new:
            reported.setdefault(v["key"], []).append(v)
        for key, vs in reported.items():
            v = vs[0]
            name = "%s-%s-seed%d.json" % (self.prop, re.sub(r"[^A-Za-z0-9_.-]+", "_", key)[:80], self.seed)
            path = os.path.join(REPLAYS, name)
            with open(path, "w") as fh:
                json.dump({"property": self.prop, "key": key, "msg": v["msg"], "occurrences": len(vs),
                           "replay": v["replay"]}, fh, indent=1)
            print("VIOLATION property=%s replay=%s" % (self.prop, path))
            print("  key=%s  x%d  %s" % (key, len(vs), v["msg"][:300]))
        cov = {"evaluations": int(evaluations), "distinct_nontrivial": int(distinct_nontrivial),
               "rule": rule, "samples": self.samples[:6] or ["(none recorded)"]}
        if exhaustive is not None:
            cov["exhaustive"] = bool(exhaustive)
        cov.update(self.coverage)
        if extra:
            cov.update(extra)
        ev = {"property_id": self.prop, "tier": self.tier, "seed": self.seed, "level": self.level,
              "coverage": cov, "assumptions": self.assumptions, "wall_s": round(time.time() - self.t0, 2),
              "violations": len(new), "known_findings_seen": sorted(k[1] for k in seen_known),
              "verdict": "violated" if new else ("inconclusive" if self.failures else "held-on-observed"),
              "harness_failures": self.failures[:10], "notes": self.notes[:20]}
        with open(os.path.join(EVIDENCE, self.prop + ".json"), "w") as fh:
            json.dump(ev, fh, indent=1)
        if new:
            return 1
        if self.failures:
            for f in self.failures[:10]:
                print("INCONCLUSIVE property=%s %s" % (self.prop, f))
            return 2
        if evaluations < 1 or distinct_nontrivial < 2:
            print("INCONCLUSIVE property=%s too little was observed (evaluations=%d distinct_nontrivial=%d)"
                  % (self.prop, evaluations, distinct_nontrivial))
            return 2
        print("OK property=%s tier=%s seed=%d evaluations=%d distinct_nontrivial=%d wall=%.1fs"
              % (self.prop, self.tier, self.seed, evaluations, distinct_nontrivial, time.time() - self.t0))
        return 0


def merge_counts(dicts, skip=()):
    tot = {}
    for d in dicts:
        for k, v in d.items():
            if k in skip or isinstance(v, (str, bool)) or not isinstance(v, (int, float)):
                continue
            tot[k] = tot.get(k, 0) + v
    return tot


def read_hashes(paths):
    s = set()
    for p in paths:
        try:
            b = open(p, "rb").read()
        except OSError:
            continue
        for i in range(0, len(b) - 7, 8):
            s.add(b[i:i + 8])
        try:
            os.unlink(p)
        except OSError:
            pass
    return s


def collect(chk, workers, prop, san_props=None, ok_rcs=(0, 4)):
    """Generic post-processing of harness workers.
    Harness protocol: 'V {json}' violation records with a comma separated 'props' field,
    'A {json}' witness written from __asan_on_error, 'X {json}' watchdog, 'S {json}' summary,
    'H {json}' samples.  Returns (summaries, other_property_counts)."""
    summaries, other = [], {}
    for wk in workers:
        relcmd = [os.path.relpath(wk.cmd[0], VERIF)] + wk.cmd[1:]
        for v in wk.records("V"):
            props = v.get("props", "").split(",")
            rep = {"cmd": relcmd, "case": v.get("case"), "env": wk.env, "oplog": str(v.get("oplog", ""))[-3000:]}
            if getattr(wk, "case_is_args", False) and isinstance(v.get("case"), str):
                rep["cmd"] = [relcmd[0]] + v["case"].split()
            rep.update(getattr(wk, "replay_extra", {}))
            if prop in props:
                chk.violation(v["key"], v.get("msg", ""), rep)
            else:
                other[v["key"]] = other.get(v["key"], 0) + 1
                if "hang" in v["key"] and len(chk.notes) < 15:
                    chk.notes.append("other-property hang: %s %s | %s" % (v.get("case"), v.get("msg", "")[:300], str(v.get("oplog", ""))[-600:]))
        san = sanitizer_report(wk.err)
        if san:
            kind, top, excerpt = san
            wit = (wk.records("A") or [{}])[-1]
            rep = {"cmd": relcmd, "case": wit.get("case"), "env": wk.env, "oplog": str(wit.get("oplog", ""))[-3000:],
                   "report": excerpt}
            if getattr(wk, "case_is_args", False) and isinstance(wit.get("case"), str):
                rep["cmd"] = [relcmd[0]] + wit["case"].split()
            rep.update(getattr(wk, "replay_extra", {}))
            mine = san_props(kind, top) if san_props else {prop}
            if prop in mine:
                chk.violation("%s:%s" % (kind, top), "%s in %s" % (kind, top), rep)
            else:
                other["%s:%s" % (kind, top)] = 1
        elif wk.timed_out or wk.rc == 3:
            chk.fail("worker %s hung (watchdog), also on re-run: %s" % (wk.tag, (wk.records("X") or [wk.err[-300:]])[-1]))
        elif wk.rc not in ok_rcs:
            rep = {"cmd": relcmd, "env": wk.env, "stderr": wk.err[-2000:], "stdout_tail": wk.out[-1000:]}
            chk.violation("crash:rc%d" % wk.rc, "harness process died rc=%d (%s)" % (wk.rc, wk.tag), rep)
        ss = wk.records("S")
        if ss:
            summaries.append(ss[-1])
        elif wk.rc == 0:
            chk.fail("worker %s produced no summary" % (wk.tag,))
        for h in wk.records("H")[:2]:
            if len(chk.samples) < 6:
                chk.samples.append(h)
    if other:
        chk.notes.append("violations of other properties seen in passing (decided by their own checks): %s" % other)
        print("NOTE other-property observations: %s" % other)
    return summaries, other


def rerun_hung(chk, workers):
    again = [wk for wk in workers if wk.timed_out or wk.rc == 3]
    for wk in again:
        chk.notes.append("re-running %s after watchdog" % (wk.tag,))
    run_pool(again)


def generic_replay(chk, path, exe_resolver):
    rec = json.load(open(path))
    r = rec["replay"]
    cmd = list(r["cmd"])
    cmd[0] = exe_resolver(cmd[0])
    wk = Worker(cmd, "replay", timeout=900, env=r.get("env") or {}).run()
    sys.stdout.write(wk.out[-6000:])
    sys.stderr.write(wk.err[-6000:])
    hit = [v for v in wk.records("V") if chk.prop in v.get("props", "").split(",")]
    if hit or sanitizer_report(wk.err) or wk.rc not in (0, 4):
        print("VIOLATION property=%s replay=%s" % (chk.prop, path))
        return 1
    print("replay: no violation reproduced")
    return 0
