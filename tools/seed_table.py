#!/usr/bin/env python3
"""Regenerate the table of seeded changes in DESIGN.md (between the SEEDED markers) from seeded/*/meta.json."""
import json, os, re
V = os.path.dirname(os.path.dirname(os.path.abspath(__file__)))
rows = []
for d in sorted(os.listdir(os.path.join(V, "seeded"))):
    mp = os.path.join(V, "seeded", d, "meta.json")
    if not os.path.exists(mp):
        continue
    m = json.load(open(mp))
    def one(x):
        return re.sub(r"\s+", " ", str(x)).replace("|", "/").strip()
    conf = m.get("what_i_ran", {}).get("confirmation_result", "")
    res = re.search(r"RESULT demo_with=(\d+) demo_without=(\d+)", conf)
    suite = "suite ok" if ("100% tests passed" in conf or ("sleep-while-inspecting" in conf and conf.count("(Failed)") <= 2)) else "suite: see confirm.txt"
    rows.append("| `seeded/%s` | %s | %s | %s | demo %s/%s, %s |" % (
        d, one(m.get("summary", ""))[:330], one(m.get("needs", ""))[:260], one(m.get("what_i_ran", {}).get("check_outcome", ""))[:330],
        ("fails" if res and res.group(1) != "0" else "?"), ("passes" if res and res.group(2) == "0" else "?"), suite))
table = ("| change | what it does | what it needs | outcome of the property's check (quick tier, change applied to /repo) | my confirmation (with/without) |\n"
         "|---|---|---|---|---|\n" + "\n".join(rows))
p = os.path.join(V, "DESIGN.md")
s = open(p).read()
if "SEEDED_TABLE" in s:
    s = s.replace("SEEDED_TABLE", "<!-- SEEDED:BEGIN -->\n" + table + "\n<!-- SEEDED:END -->")
else:
    s = re.sub(r"<!-- SEEDED:BEGIN -->.*?<!-- SEEDED:END -->", lambda _: "<!-- SEEDED:BEGIN -->\n" + table + "\n<!-- SEEDED:END -->", s, flags=re.S)
open(p, "w").write(s)
print(len(rows), "rows")
