#!/usr/bin/env python3
"""Build layer of the /verif machinery.

Compiles sources of /repo's *working tree* directly (no cmake) into a
content-addressed object cache, one cache per sanitizer flavour, and links the
harnesses / driver modules out of them.  An edited source (or any edited header)
is always recompiled, an unchanged one never.

    python3 build.py --all        # warm every cache (MANIFEST.setup_cmd)
"""
import hashlib
import os
import shutil
import subprocess
import sys
import threading
from concurrent.futures import ThreadPoolExecutor

VERIF = os.path.dirname(os.path.abspath(__file__))
REPO = os.environ.get("VERIF_REPO", "/repo")
CACHE = os.path.join(VERIF, ".cache")
GUARD = "ACQUIRE_COMMON_VERIF"

CC = "gcc"
CXX = "g++"

INCLUDES = [
    "acquire-core-libs/src/acquire-core-logger",
    "acquire-core-libs/src/acquire-core-platform/linux",
    "acquire-core-libs/src/acquire-device-properties",
    "acquire-core-libs/src/acquire-device-kit",
    "acquire-core-libs/src/acquire-device-hal",
    "acquire-video-runtime/src",
    "acquire-driver-common/src",
    "acquire-driver-common/src/simcams/3rdParty/pcg-c-basic-0.9",
]

FLAVOURS = {
    # one sanitizer family per build; reports are fatal
    "asan": ["-O1", "-g", "-fno-omit-frame-pointer",
             "-fsanitize=address,undefined", "-fno-sanitize-recover=all"],
    "tsan": ["-O1", "-g", "-fno-omit-frame-pointer", "-fsanitize=thread"],
    "plain": ["-O1", "-g", "-fno-omit-frame-pointer"],
}

# ---- source groups of the code under test (paths relative to /repo) -------------------
CORE_LOGGER = ["acquire-core-libs/src/acquire-core-logger/logger.c"]
CORE_PLATFORM = ["acquire-core-libs/src/acquire-core-platform/linux/platform.c"]
CORE_PROPS = [
    "acquire-core-libs/src/acquire-device-properties/device/props/components.c",
    "acquire-core-libs/src/acquire-device-properties/device/props/device.c",
    "acquire-core-libs/src/acquire-device-properties/device/props/storage.c",
]
HAL_DEVICES = [
    "acquire-core-libs/src/acquire-device-hal/device/hal/camera.c",
    "acquire-core-libs/src/acquire-device-hal/device/hal/storage.c",
    "acquire-core-libs/src/acquire-device-hal/device/hal/driver.c",
]
HAL_MANAGER = [
    "acquire-core-libs/src/acquire-device-hal/device/hal/device.manager.cpp",
    "acquire-core-libs/src/acquire-device-hal/device/hal/loader.c",
]
CHANNEL = ["acquire-video-runtime/src/runtime/channel.c"]
RUNTIME = [
    "acquire-video-runtime/src/acquire.c",
    "acquire-video-runtime/src/runtime/channel.c",
    "acquire-video-runtime/src/runtime/filter.c",
    "acquire-video-runtime/src/runtime/frame_iterator.c",
    "acquire-video-runtime/src/runtime/sink.c",
    "acquire-video-runtime/src/runtime/source.c",
    "acquire-video-runtime/src/runtime/throttler.c",
    "acquire-video-runtime/src/runtime/vfslice.c",
]
SIMCAMS = [
    "acquire-driver-common/src/simcams/simulated.camera.c",
    "acquire-driver-common/src/simcams/imfill.pattern.cpp",
    "acquire-driver-common/src/simcams/popcount.cpp",
    "acquire-driver-common/src/simcams/3rdParty/pcg-c-basic-0.9/pcg_basic.c",
]
STORAGE = [
    "acquire-driver-common/src/storage/basic.storage.c",
    "acquire-driver-common/src/storage/raw.c",
    "acquire-driver-common/src/storage/side-by-side-tiff.cpp",
    "acquire-driver-common/src/storage/tiff.cpp",
    "acquire-driver-common/src/storage/trash.c",
]
DRIVER_COMMON = ["acquire-driver-common/src/basics.driver.c"] + SIMCAMS + STORAGE

# the repository builds these trees with -mavx2 (cmake/simd.cmake)
SIMD_PREFIXES = ("acquire-video-runtime/", "acquire-driver-common/")

_lock = threading.Lock()
_digest_cache = {}


def log(*a):
    print("[build]", *a, file=sys.stderr, flush=True)


def _sha(*parts):
    h = hashlib.sha256()
    for p in parts:
        if isinstance(p, str):
            p = p.encode()
        h.update(p)
        h.update(b"\0")
    return h.hexdigest()


def header_digest():
    """Digest of every header (and every textually included .c) under /repo's source
    trees and /verif/harness: part of every object's cache key."""
    with _lock:
        if "hdr" in _digest_cache:
            return _digest_cache["hdr"]
    h = hashlib.sha256()
    roots = [os.path.join(REPO, d) for d in
             ("acquire-core-libs/src", "acquire-video-runtime/src", "acquire-driver-common/src")]
    roots.append(os.path.join(VERIF, "harness"))
    files = []
    for r in roots:
        for dp, dn, fn in os.walk(r):
            for f in fn:
                if f.endswith((".h", ".hh", ".hpp", ".inc")) or f.startswith("bin2."):
                    files.append(os.path.join(dp, f))
    for f in sorted(files):
        h.update(f.encode())
        with open(f, "rb") as fh:
            h.update(fh.read())
    d = h.hexdigest()
    with _lock:
        _digest_cache["hdr"] = d
    return d


def _run(cmd):
    r = subprocess.run(cmd, stdout=subprocess.PIPE, stderr=subprocess.STDOUT, text=True)
    if r.returncode != 0:
        sys.stderr.write("BUILD FAILED: %s\n%s\n" % (" ".join(cmd), r.stdout))
        raise BuildError(" ".join(cmd) + "\n" + r.stdout)
    return r.stdout


class BuildError(Exception):
    pass


_OBJ_LOCKS = {}
_OBJ_LOCKS_GUARD = threading.Lock()


class Builder:
    def __init__(self, flavour, extra_cflags=()):
        assert flavour in FLAVOURS
        self.flavour = flavour
        self.extra = list(extra_cflags)
        self.dir = os.path.join(CACHE, flavour + ("" if not extra_cflags else
                                                   "-" + _sha(*extra_cflags)[:8])
                                + ("" if REPO == "/repo" else "-repo" + _sha(REPO)[:8]))  # one cache per source tree
        os.makedirs(os.path.join(self.dir, "obj"), exist_ok=True)
        os.makedirs(os.path.join(self.dir, "bin"), exist_ok=True)

    # ---- compile ---------------------------------------------------------------------
    def cflags(self, src, repo_rel):
        is_cxx = src.endswith((".cpp", ".cc"))
        fl = [CXX if is_cxx else CC]
        fl += ["-std=gnu++20"] if is_cxx else ["-std=gnu11"]
        fl += FLAVOURS[self.flavour] + ["-fPIC", "-pthread", "-w", "-D" + GUARD + "=1",
                                        "-DGIT_TAG=verif", "-DGIT_HASH=0"]
        if repo_rel is None or repo_rel.startswith(SIMD_PREFIXES):
            fl += ["-mavx2"]
        for i in INCLUDES:
            fl += ["-I" + os.path.join(REPO, i)]
        fl += ["-I" + os.path.join(VERIF, "harness")]
        fl += self.extra
        return fl

    def obj(self, path, defines=()):
        """Compile one source (path relative to /repo, or absolute for harness files)."""
        if os.path.isabs(path):
            src, rel = path, None
        else:
            src, rel = os.path.join(REPO, path), path
        cmd = self.cflags(src, rel) + list(defines)
        with open(src, "rb") as fh:
            content = fh.read()
        key = _sha(" ".join(cmd), content, header_digest())
        tag = (rel or os.path.relpath(src, VERIF)).replace("/", "__")
        if defines:
            tag += "." + _sha(*defines)[:8]
        out = os.path.join(self.dir, "obj", tag + ".o")
        keyf = out + ".key"
        with _OBJ_LOCKS_GUARD:
            lk = _OBJ_LOCKS.setdefault(out, threading.Lock())
        with lk:  # several targets built in parallel share objects: compile each once
            if os.path.exists(out) and os.path.exists(keyf) and open(keyf).read() == key:
                return out
            uniq = ".tmp%d.%d" % (os.getpid(), threading.get_ident())
            _run(cmd + ["-c", src, "-o", out + uniq])
            os.replace(out + uniq, out)
            with open(keyf + uniq, "w") as fh:
                fh.write(key)
            os.replace(keyf + uniq, keyf)
            return out

    def objs(self, paths, defines=()):
        with ThreadPoolExecutor(max_workers=min(16, max(1, len(paths)))) as ex:
            return list(ex.map(lambda p: self.obj(p, defines), paths))

    # ---- link ------------------------------------------------------------------------
    def _link(self, out, objs, ldflags, shared):
        cmd = [CXX] + FLAVOURS[self.flavour] + ["-pthread"]
        if shared:
            cmd += ["-shared"]
        cmd += objs + list(ldflags) + ["-ldl", "-lm", "-o"]
        parts = [" ".join(cmd)]
        for o in objs:
            kf = o + ".key"
            parts.append(open(kf).read() if os.path.exists(kf) else str(os.path.getmtime(o)))
        key = _sha(*parts)
        keyf = out + ".key"
        with _OBJ_LOCKS_GUARD:
            lk = _OBJ_LOCKS.setdefault(out, threading.Lock())
        with lk:
            if os.path.exists(out) and os.path.exists(keyf) and open(keyf).read() == key:
                return out
            uniq = ".tmp%d.%d" % (os.getpid(), threading.get_ident())
            _run(cmd + [out + uniq])
            os.replace(out + uniq, out)
            with open(keyf + uniq, "w") as fh:
                fh.write(key)
            os.replace(keyf + uniq, keyf)
            return out

    def exe(self, name, objs, ldflags=(), subdir=None):
        d = os.path.join(self.dir, "bin", subdir) if subdir else os.path.join(self.dir, "bin")
        os.makedirs(d, exist_ok=True)
        return self._link(os.path.join(d, name), objs, ldflags, False)

    def shared(self, name, objs, ldflags=(), subdir=None):
        d = os.path.join(self.dir, "bin", subdir) if subdir else os.path.join(self.dir, "bin")
        os.makedirs(d, exist_ok=True)
        return self._link(os.path.join(d, name), objs, ldflags, True)


def wrap(*syms):
    return ["-Wl," + ",".join("--wrap=" + s for s in syms)]


def harness(name):
    return os.path.join(VERIF, "harness", name)


# ---- targets -----------------------------------------------------------------------------
def build_chan(flavour):
    b = Builder(flavour)
    objs = b.objs(CHANNEL + CORE_PLATFORM + CORE_LOGGER) + b.objs([harness("chan_harness.c")])
    return b.exe("chan_harness", objs,
                 wrap("condition_variable_wait", "lock_acquire", "condition_variable_notify_all"))


def build_hal(flavour):
    b = Builder(flavour)
    props = ["acquire-core-libs/src/acquire-device-properties/device/props/device.c"]
    objs = b.objs(HAL_DEVICES + CORE_LOGGER + props) + b.objs([harness("hal_harness.c")])
    return b.exe("hal_harness", objs, wrap("device_manager_get_driver"))


def build_props(flavour):
    b = Builder(flavour)
    objs = b.objs(["acquire-core-libs/src/acquire-device-properties/device/props/storage.c"] + CORE_LOGGER)
    objs += b.objs([harness("props_harness.cpp")])
    return b.exe("props_harness", objs, wrap("malloc", "realloc", "free", "calloc"))


def build_sto(flavour):
    b = Builder(flavour)
    srcs = DRIVER_COMMON + CORE_PROPS + CORE_PLATFORM + CORE_LOGGER + [
        "acquire-core-libs/src/acquire-device-hal/device/hal/storage.c",
        "acquire-core-libs/src/acquire-device-hal/device/hal/driver.c"]
    objs = b.objs(srcs) + b.objs([harness("sto_harness.cpp")])
    return b.exe("sto_harness", objs, wrap("open", "pwrite", "write", "close", "flock", "device_manager_get_driver"))


def build_simcam(flavour, extra=()):
    b = Builder(flavour, extra)
    srcs = SIMCAMS + CORE_PLATFORM + CORE_LOGGER + [
        "acquire-core-libs/src/acquire-device-properties/device/props/components.c",
        "acquire-core-libs/src/acquire-device-properties/device/props/device.c",
        "acquire-core-libs/src/acquire-device-hal/device/hal/camera.c",
        "acquire-core-libs/src/acquire-device-hal/device/hal/driver.c"]
    objs = b.objs(srcs) + b.objs([harness("simcam_harness.c")])
    return b.exe("simcam_harness", objs, wrap("lock_acquire", "condition_variable_wait", "clock_sleep_ms"))


def build_driver_common_so(flavour):
    """The real acquire-driver-common module, built like the repository builds it."""
    b = Builder(flavour)
    objs = b.objs(DRIVER_COMMON + CORE_PLATFORM + CORE_LOGGER + CORE_PROPS)
    return b.shared("libacquire-driver-common.so", objs)


def build_dm(flavour):
    b = Builder(flavour)
    srcs = HAL_MANAGER + HAL_DEVICES + CORE_PLATFORM + CORE_LOGGER + [
        "acquire-core-libs/src/acquire-device-properties/device/props/device.c"]
    objs = b.objs(srcs) + b.objs([harness("dm_harness.cpp")])
    exe = b.exe("dm_harness", objs, ["-rdynamic"])
    libs = {"common": build_driver_common_so(flavour)}
    for v in range(1, 8):
        o = b.objs([harness("mockdrv_dm.c")], defines=["-DMOCK_VARIANT=%d" % v])
        libs["mock%d" % v] = b.shared("libmock%d.so" % v, o)
    return exe, libs


def build_rt(flavour):
    b = Builder(flavour)
    srcs = RUNTIME + HAL_MANAGER + HAL_DEVICES + CORE_PROPS + CORE_PLATFORM + CORE_LOGGER
    objs = b.objs(srcs) + b.objs([harness("rt_harness.c")])
    exe = b.exe("rt_harness", objs, wrap("video_sink_init", "video_filter_init", "thread_create", "condition_variable_wait",
                                         "channel_write_map", "channel_write_unmap", "channel_read_map", "channel_read_unmap")
                + ["-rdynamic"], subdir="rt")
    common = build_driver_common_so(flavour)
    d = os.path.dirname(exe)
    tgt = os.path.join(d, "libacquire-driver-common.so")
    if not os.path.exists(tgt) or os.path.getmtime(tgt) < os.path.getmtime(common) or os.path.getsize(tgt) != os.path.getsize(common):
        tmp = tgt + ".tmp%d.%d" % (os.getpid(), threading.get_ident())
        shutil.copy2(common, tmp)
        os.replace(tmp, tgt)
    b.shared("libacquire-driver-hdcam.so", b.objs([harness("rt_mockdrv.c")]), subdir="rt")
    return exe


TARGETS = {
    "chan": build_chan,
}


def build_all():
    import check  # the orchestrator knows which (target, flavour) pairs the checks use
    jobs = check.all_build_jobs()
    with ThreadPoolExecutor(max_workers=4) as ex:
        list(ex.map(lambda j: j(), jobs))


if __name__ == "__main__":
    if "--clean" in sys.argv:
        shutil.rmtree(CACHE, ignore_errors=True)
    if "--all" in sys.argv:
        build_all()
        log("all targets built")
