"""H3 -- HAL protocol harness orchestration (C11)."""
import os
import shutil
import sys

sys.path.insert(0, os.path.dirname(os.path.dirname(os.path.abspath(__file__))))
import build
from lib import vlib

RULE = ("bounded-exhaustive: every sequence of HAL calls of length<=L over {set,start,stop,get_frame|append,trigger,close} "
        "x every driver answer (camera Ok/Err: 11 choices per step; storage 4 DeviceStates: 17 choices per step; "
        "complete for L<=5 in quick, camera L<=7 / storage L<=6 complete + a seeded slice of storage L=7 in thorough), plus seeded random sequences of up to 60 calls "
        "(get/get_meta/get_shape/reserve/empty append/re-open mixed in; uniform, mostly-protocol-following and "
        "rare-fault driver answer policies; open/describe failures). A recording mock driver enforces the protocol, "
        "device objects are exact-size heap blocks freed in close (ASan sees later touches), and after every call "
        "the HAL's reported state is compared with the state implied by the driver's answers. Non-trivial/distinct = "
        "distinct traces of (call, reported state) pairs (hash set measured in the harness).")


def run(prop, tier, replay=None):
    chk = vlib.Check(prop, tier)
    exe = build.build_hal("asan")
    if replay:
        return vlib.generic_replay(chk, replay, lambda _: exe)
    seed = chk.seed
    tmp = os.path.join(build.CACHE, "tmp", "hal-%d" % os.getpid())
    os.makedirs(tmp, exist_ok=True)
    jobs = []

    def full(k, l, parts):
        base = 11 if k == "cam" else 17
        total = base ** l
        chunk = (total + parts - 1) // parts
        for i in range(parts):
            jobs.append(["enum", k, l, i * chunk, chunk])

    for k in ("cam", "sto"):
        for l in (1, 2, 3, 4):
            full(k, l, 1)
    full("cam", 5, 2)
    full("sto", 5, 16)
    if tier == "thorough":
        full("cam", 6, 8)
        full("sto", 6, 64)
        full("cam", 7, 32)
        n = 3000000
        for i in range(8):
            start = vlib.splitmix(seed, "hal-sto7", i) % (17 ** 7 - n)
            jobs.append(["enum", "sto", 7, start, n])
        nrand, per = 32, 1000000
    else:
        nrand, per = 16, 100000
    sub = vlib.splitmix(seed, "halrandom") % (1 << 31)
    for w in range(nrand):
        jobs.append(["random", sub, w * per, per])
    workers = []
    for i, j in enumerate(jobs):
        wk = vlib.Worker([exe] + j, tuple(j[:3]), timeout=1800, env={"VERIF_HASH_OUT": os.path.join(tmp, "%d.hash" % i)})
        wk.hash_path = os.path.join(tmp, "%d.hash" % i)
        wk.case_is_args = True
        workers.append(wk)
    vlib.run_pool(workers)
    vlib.rerun_hung(chk, workers)
    summaries, _ = vlib.collect(chk, workers, prop)
    tot = vlib.merge_counts(summaries, skip=("distinct_state_traces",))
    distinct = len(vlib.read_hashes([w.hash_path for w in workers]))
    shutil.rmtree(tmp, ignore_errors=True)
    for k in ("guarded_calls", "driver_calls", "state_checks", "closes"):
        if not tot.get(k):
            chk.fail("required event class never observed: %s" % k)
    chk.coverage = {"events": tot, "exhaustive_bounds": {"camera_len<=": 7 if tier == "thorough" else 5,
                                                         "storage_len<=": 6 if tier == "thorough" else 5},
                    "jobs": len(jobs)}
    chk.assumptions = ["devices implement every required interface function (NULL function pointers are outside the quantifier)",
                       "ASan detects touches of the freed device object only while it sits in quarantine (exact-size blocks, small runs)"]
    return chk.finish(int(tot.get("cases", 0)), distinct, RULE, exhaustive=False)


def build_jobs():
    return [lambda: build.build_hal("asan")]
