// H6 -- storage-device harness (C14, C15, C16).  See DESIGN.md section 4/H6.
//
//   sto_harness raw   <seed> <first> <count> <scratch-dir>
//   sto_harness tiff  <seed> <first> <count> <scratch-dir>      (writes expected.json per case for lib/bigtiff.py)
//   sto_harness fault <kind> <template> <site-kind> <site> <mode> <scratch-dir>
//        kind: raw|tiff|tiff-json|trash   site-kind: none|open|pwrite
//        mode: count | eacces | enospc | eio | shortfail | zero
//
// Real raw.c / tiff.cpp / side-by-side-tiff.cpp / trash.c are driven through the HAL
// (storage.c) exactly as the sink does.  open/pwrite/close/flock of platform.c are interposed
// (-Wl,--wrap): descriptor ledger, short writes, injected faults.
#define _GNU_SOURCE 1
#include "device/hal/storage.h"
#include "device/hal/driver.h"
#include "device/hal/device.manager.h"
#include "device/kit/driver.h"
#include "device/kit/storage.h"
#include "device/props/storage.h"
#include "device/props/components.h"
#include "identifiers.h"
#include "logger.h"
#include "vcommon.h"

#include <errno.h>
#include <fcntl.h>
#include <signal.h>
#include <sys/mman.h>
#include <sys/resource.h>
#include <sys/stat.h>
#include <unistd.h>

#include <set>
#include <string>
#include <vector>

// ---- reporting -------------------------------------------------------------------------------
static vbuf g_log;
static char g_casedesc[256];
static const char* g_props = "C14";
static unsigned long g_nviol, g_nviol_other;
static int g_case_violated;

static void violation(const char* props, const char* key, const char* fmt, ...)
{
    char msg[600]; va_list ap; va_start(ap, fmt); vsnprintf(msg, sizeof msg, fmt, ap); va_end(ap);
    if (!strstr(props, g_props)) {
        // an observation that belongs to another property's check: reported (bounded), but the oracle of this mode keeps going
        if (++g_nviol_other > 40) return;
    } else { ++g_nviol; g_case_violated = 1; }
    printf("V {\"props\":\"%s\",\"key\":\"%s\",\"case\":\"%s\",\"msg\":", props, key, g_casedesc);
    vjson_str(stdout, msg);
    printf(",\"oplog\":"); vjson_str(stdout, g_log.p ? g_log.p : ""); printf("}\n");
    fflush(stdout);
}
extern "C" void __asan_on_error(void)
{
    printf("A {\"props\":\"%s\",\"case\":\"%s\",\"oplog\":", g_props, g_casedesc);
    vjson_str(stdout, g_log.p ? g_log.p : ""); printf("}\n");
    fflush(stdout);
}

// ---- io shim -----------------------------------------------------------------------------------
extern "C" {
int __real_open(const char*, int, ...);
ssize_t __real_pwrite(int, const void*, size_t, off_t);
int __real_close(int);
int __real_flock(int, int);
}
enum FaultMode { F_NONE, F_EACCES, F_ENOSPC, F_EIO, F_SHORTFAIL, F_ZERO };
static struct {
    std::set<int>* owned;
    unsigned long n_open, n_pwrite, n_close, n_flock, bytes, faults_fired, shorts;
    int site_kind; // 0 none 1 open 2 pwrite 3 flock
    long site; FaultMode mode;
    int short_writes; vrng rng; // random short writes (C14)
    int shortfail_armed;
    int sparse; // big-file mode: of a write > 1 MiB only the first and last 8 KiB reach the disk (the rest is zeros in the source, a hole in the file)
} IO;

extern "C" int __wrap_open(const char* path, int flags, ...)
{
    mode_t mode = 0;
    if (flags & O_CREAT) { va_list ap; va_start(ap, flags); mode = (mode_t)va_arg(ap, int); va_end(ap); }
    unsigned long idx = IO.n_open++;
    if (IO.site_kind == 1 && (long)idx == IO.site && IO.mode == F_EACCES) { ++IO.faults_fired; errno = EACCES; return -1; }
    int fd = __real_open(path, flags, mode);
    if (fd >= 0) IO.owned->insert(fd);
    return fd;
}
extern "C" ssize_t __wrap_pwrite(int fd, const void* buf, size_t n, off_t off)
{
    if (!IO.owned->count(fd)) {
        violation("C16", "write-to-unowned-descriptor", "pwrite(fd=%d, %zu bytes @%lld): the device never opened this descriptor (or closed it already)",
                  fd, n, (long long)off);
        errno = EBADF; return -1;
    }
    unsigned long idx = IO.n_pwrite++;
    if (IO.site_kind == 2) {
        if (IO.mode == F_ENOSPC && (long)idx >= IO.site) { ++IO.faults_fired; errno = ENOSPC; return -1; }
        if (IO.mode == F_ZERO && (long)idx >= IO.site) { ++IO.faults_fired; return 0; }
        if (IO.mode == F_EIO && (long)idx == IO.site) { ++IO.faults_fired; errno = EIO; return -1; }
        if (IO.mode == F_SHORTFAIL) {
            if ((long)idx == IO.site && n > 1) { IO.shortfail_armed = 1; ++IO.shorts; ssize_t r = __real_pwrite(fd, buf, n / 2, off); if (r > 0) IO.bytes += (unsigned long)r; return r; }
            if (IO.shortfail_armed || ((long)idx == IO.site)) { IO.shortfail_armed = 0; ++IO.faults_fired; errno = EIO; return -1; }
        }
    }
    if (IO.sparse && n > (1u << 20)) {
        const uint8_t* b = (const uint8_t*)buf;
        if (__real_pwrite(fd, b, 8192, off) != 8192 || __real_pwrite(fd, b + n - 8192, 8192, off + (off_t)(n - 8192)) != 8192) return -1;
        IO.bytes += n;
        return (ssize_t)n;
    }
    size_t k = n;
    if (IO.short_writes && n > 1 && vrng_chance(&IO.rng, 1, 2)) { k = (size_t)vrng_range(&IO.rng, 1, n - 1); ++IO.shorts; }
    ssize_t r = __real_pwrite(fd, buf, k, off);
    if (r > 0) IO.bytes += (unsigned long)r;
    return r;
}
// a device that switched from pwrite to write(2) must still be observed
extern "C" ssize_t __real_write(int, const void*, size_t);
extern "C" ssize_t __wrap_write(int fd, const void* buf, size_t n)
{
    if (fd <= 2 || !IO.owned->count(fd)) return __real_write(fd, buf, n); // stdio of the harness itself
    unsigned long idx = IO.n_pwrite++;
    if (IO.site_kind == 2) {
        if ((IO.mode == F_ENOSPC || IO.mode == F_ZERO) && (long)idx >= IO.site) { ++IO.faults_fired; if (IO.mode == F_ZERO) return 0; errno = ENOSPC; return -1; }
        if ((IO.mode == F_EIO || IO.mode == F_SHORTFAIL) && (long)idx == IO.site) { ++IO.faults_fired; errno = EIO; return -1; }
    }
    size_t k = n;
    if (IO.short_writes && n > 1 && vrng_chance(&IO.rng, 1, 2)) { k = (size_t)vrng_range(&IO.rng, 1, n - 1); ++IO.shorts; }
    ssize_t r = __real_write(fd, buf, k);
    if (r > 0) IO.bytes += (unsigned long)r;
    return r;
}
extern "C" int __wrap_close(int fd)
{
    ++IO.n_close;
    if (!IO.owned->count(fd)) {
        violation("C16", "close-of-unowned-descriptor", "close(fd=%d): not a descriptor this device opened, or already closed", fd);
        errno = EBADF; return -1; // the real descriptor (stdin, somebody else's file) is left alone
    }
    IO.owned->erase(fd);
    return __real_close(fd);
}
extern "C" int __wrap_flock(int fd, int op)
{
    unsigned long idx = IO.n_flock++;
    if (!IO.owned->count(fd)) violation("C16", "flock-on-unowned-descriptor", "flock(fd=%d)", fd);
    if (IO.site_kind == 3 && (long)idx == IO.site) { ++IO.faults_fired; errno = EWOULDBLOCK; return -1; } // somebody else holds the lock
    return __real_flock(fd, op);
}

// ---- driver access ------------------------------------------------------------------------------
extern "C" struct Driver* acquire_driver_init_v0(void (*reporter)(int, const char*, int, const char*, const char*));
static struct Driver* g_driver;
extern "C" struct Driver* __wrap_device_manager_get_driver(const struct DeviceManager*, const struct DeviceIdentifier*) { return g_driver; }
static int g_loud;
static void reporter(int is_error, const char* file, int line, const char* fn, const char* msg)
{
    if (g_loud) fprintf(stderr, "%s %s:%d %s: %s\n", is_error ? "ERR" : "log", file, line, fn, msg);
}
static struct Storage* open_device(int basic_kind)
{
    struct DeviceManager dm = { 0 };
    struct DeviceIdentifier id = { 0 };
    id.kind = DeviceKind_Storage; id.device_id = (uint8_t)basic_kind;
    return storage_open(&dm, &id);
}

// ---- frames ---------------------------------------------------------------------------------------
static const size_t k_bpp[] = { 1, 2, 1, 2, 4, 2, 2, 2 };
struct FrameSpec { uint32_t w, h; int type; uint64_t frame_id, hw_id, ts_hw, ts_acq; size_t off, nbytes, img; };
static size_t align8(size_t v) { return (v + 7) & ~(size_t)7; }

// build a buffer of well-formed frames; pixels from the rng
static void build_frames(vrng* g, std::vector<uint8_t>& buf, std::vector<FrameSpec>& specs, int nframes, bool vary_shape,
                         uint32_t w0, uint32_t h0, int type0, uint64_t first_id)
{
    buf.clear(); specs.clear();
    uint32_t w = w0, h = h0; int type = type0;
    for (int i = 0; i < nframes; ++i) {
        if (vary_shape && vrng_chance(g, 1, 4)) { w = (uint32_t)vrng_range(g, 1, 40); h = (uint32_t)vrng_range(g, 1, 24); type = (int)vrng_below(g, SampleTypeCount); }
        FrameSpec s{};
        s.w = w; s.h = h; s.type = type; s.img = (size_t)w * h * k_bpp[type];
        s.nbytes = align8(sizeof(struct VideoFrame) + s.img);
        s.off = buf.size();
        s.frame_id = first_id + (uint64_t)i; s.hw_id = 1000 + 3 * (uint64_t)i + vrng_below(g, 3);
        s.ts_hw = vrng_u64(g) >> 8; s.ts_acq = vrng_u64(g) >> 8;
        buf.resize(buf.size() + s.nbytes);
        struct VideoFrame* f = (struct VideoFrame*)(buf.data() + s.off); // offsets are multiples of 8; vector data is 16-aligned
        memset(f, 0, s.nbytes);
        f->bytes_of_frame = s.nbytes;
        f->shape.dims.channels = 1; f->shape.dims.width = w; f->shape.dims.height = h; f->shape.dims.planes = 1;
        f->shape.strides.channels = 1; f->shape.strides.width = 1; f->shape.strides.height = w; f->shape.strides.planes = (int64_t)w * h;
        f->shape.type = (enum SampleType)type;
        f->frame_id = s.frame_id; f->hardware_frame_id = s.hw_id; f->timestamps.hardware = s.ts_hw; f->timestamps.acq_thread = s.ts_acq;
        for (size_t k = 0; k < s.nbytes - sizeof(struct VideoFrame); ++k) f->data[k] = (uint8_t)vrng_u64(g);
        specs.push_back(s);
        // re-fetch pointers after resize in later iterations: specs hold offsets only
    }
}

static bool read_file(const std::string& path, std::vector<uint8_t>& out)
{
    FILE* f = fopen(path.c_str(), "rb");
    if (!f) return false;
    out.clear();
    uint8_t tmp[65536]; size_t n;
    while ((n = fread(tmp, 1, sizeof tmp, f)) > 0) out.insert(out.end(), tmp, tmp + n);
    fclose(f);
    return true;
}

static std::string uri_spelling(vrng* g, const std::string& dir, const std::string& name, std::string* real_path)
{
    *real_path = dir + "/" + name;
    switch (vrng_below(g, 3)) {
        case 0: return name;                          // relative (cwd is the scratch dir)
        case 1: return *real_path;                    // absolute
        default: return "file://" + *real_path;       // file:// + absolute
    }
}

static struct { unsigned long cases, cycles, appends, frames, bytes, files, empty_cycles, fileuri, restarts_without_set, neighbours, big_files; } C;
static vset g_sigs;

// append frames [0,n) of buf grouped into random packets; returns false if the HAL reported an error
static bool append_in_packets(struct Storage* st, vrng* g, const std::vector<uint8_t>& buf, const std::vector<FrameSpec>& specs)
{
    size_t i = 0;
    while (i < specs.size()) {
        size_t k = vrng_chance(g, 1, 3) ? 1 : (size_t)vrng_range(g, 1, 8);
        if (i + k > specs.size()) k = specs.size() - i;
        const uint8_t* beg = buf.data() + specs[i].off;
        const uint8_t* end = buf.data() + specs[i + k - 1].off + specs[i + k - 1].nbytes;
        vbuf_printf(&g_log, "append(%zu frames,%zu B) ", k, (size_t)(end - beg));
        ++C.appends;
        if (storage_append(st, (const struct VideoFrame*)beg, (const struct VideoFrame*)end) != Device_Ok) return false;
        if (vrng_chance(g, 1, 10)) storage_append(st, (const struct VideoFrame*)beg, (const struct VideoFrame*)beg); // empty packet
        i += k;
    }
    return true;
}

// ---- C14: raw ----------------------------------------------------------------------------------------
static void run_raw_case(uint64_t seed, unsigned long icase, const std::string& dir)
{
    vrng g; vrng_seed(&g, seed, 0x14, icase);
    snprintf(g_casedesc, sizeof g_casedesc, "raw %llu %lu 1", (unsigned long long)seed, icase);
    vbuf_reset(&g_log); g_case_violated = 0;
    IO.short_writes = vrng_chance(&g, 3, 4); vrng_seed(&IO.rng, seed, 0x15, icase);
    IO.site_kind = 0; IO.mode = F_NONE;
    struct Storage* st = open_device(BasicDevice_Storage_Raw);
    if (!st) { violation("C14", "open-failed", "storage_open(raw) failed"); return; }
    int ncycles = (int)vrng_range(&g, 1, 4);
    uint64_t sig = vhash_init();
    // A neighbour: a second raw device whose start fails because its file is locked by somebody else
    // (the harness plays the other process). Whatever the neighbour does afterwards, the files of the
    // device under test still consist of exactly the frames appended to them.
    int nb_cycle = vrng_chance(&g, 1, 3) ? (int)vrng_below(&g, (uint64_t)ncycles) : -1;
    int nb_when = (int)vrng_below(&g, 3); // closed 0: right after this device started, 1: in the middle of the appends, 2: after the cycle
    struct Storage* nb = 0;
    int nb_lock_fd = -1;
    // ... or a neighbour that has finished an acquisition of its own (its descriptor number is free again) and is
    // then handed one more packet although it is stopped: the packet must be refused, not written anywhere.
    int nb_kind = (int)vrng_below(&g, 3); // 2: a neighbour whose first append fails (it writes to /dev/full) and that is closed later
    std::vector<uint8_t> nbuf; std::vector<FrameSpec> nspecs; std::string nb_path;
    auto nb_close = [&]() {
        if (!nb) return;
        if (nb_kind == 1 && !nspecs.empty()) {
            vbuf_printf(&g_log, "neighbour-late-append ");
            const uint8_t* beg = nbuf.data() + nspecs[0].off; const uint8_t* end = beg + nspecs[0].nbytes;
            storage_append(nb, (const struct VideoFrame*)beg, (const struct VideoFrame*)end); // refused (the device is stopped)
            nspecs.clear();
            return; // closed at the end of the case
        }
        vbuf_printf(&g_log, "neighbour-close "); storage_close(nb); nb = 0;
    };
    for (int cy = 0; cy < ncycles && !g_case_violated; ++cy) {
        if (cy == nb_cycle && nb_kind == 1) {
            nb_path = dir + "/nb_" + std::to_string(icase) + ".raw";
            if ((nb = open_device(BasicDevice_Storage_Raw))) {
                struct StorageProperties props; memset(&props, 0, sizeof props);
                struct PixelScale ps = { 1, 1 };
                storage_properties_init(&props, 0, nb_path.c_str(), nb_path.size() + 1, 0, 0, ps, 0);
                storage_set(nb, &props);
                storage_properties_destroy(&props);
                build_frames(&g, nbuf, nspecs, (int)vrng_range(&g, 1, 6), false, (uint32_t)vrng_range(&g, 1, 32), (uint32_t)vrng_range(&g, 1, 16), SampleType_u8, 0);
                vbuf_printf(&g_log, "| neighbour acquisition of %zu frames ", nspecs.size());
                if (storage_start(nb) != Device_Ok || !append_in_packets(nb, &g, nbuf, nspecs) || storage_stop(nb) != Device_Ok)
                    violation("C14", "append-failed", "the neighbouring device's own acquisition failed");
                ++C.neighbours;
            }
        }
        if (cy == nb_cycle && nb_kind == 2) {
            if ((nb = open_device(BasicDevice_Storage_Raw))) {
                const char* full = "/dev/full";
                struct StorageProperties props; memset(&props, 0, sizeof props);
                struct PixelScale ps = { 1, 1 };
                storage_properties_init(&props, 0, full, strlen(full) + 1, 0, 0, ps, 0);
                enum DeviceStatusCode rs = storage_set(nb, &props);
                storage_properties_destroy(&props);
                std::vector<uint8_t> fbuf; std::vector<FrameSpec> fspecs;
                build_frames(&g, fbuf, fspecs, 2, false, 8, 4, SampleType_u8, 0);
                enum DeviceStatusCode ra = Device_Err;
                if (rs == Device_Ok && storage_start(nb) == Device_Ok)
                    ra = storage_append(nb, (const struct VideoFrame*)fbuf.data(), (const struct VideoFrame*)(fbuf.data() + fbuf.size()));
                vbuf_printf(&g_log, "| neighbour on /dev/full: append -> %s ", ra == Device_Ok ? "ok" : "failed");
                ++C.neighbours;
            }
        }
        if (cy == nb_cycle && nb_kind == 0) {
            std::string lp = dir + "/locked_" + std::to_string(icase) + ".raw";
            int lfd = __real_open(lp.c_str(), O_RDWR | O_CREAT, 0666);
            if (lfd >= 0 && __real_flock(lfd, LOCK_EX | LOCK_NB) == 0 && (nb = open_device(BasicDevice_Storage_Raw))) {
                struct StorageProperties props; memset(&props, 0, sizeof props);
                struct PixelScale ps = { 1, 1 };
                storage_properties_init(&props, 0, lp.c_str(), lp.size() + 1, 0, 0, ps, 0);
                storage_set(nb, &props);
                storage_properties_destroy(&props);
                enum DeviceStatusCode r = storage_start(nb);
                vbuf_printf(&g_log, "| neighbour start on a locked file -> %s ", r == Device_Ok ? "ok" : "refused");
                ++C.neighbours;
            }
            nb_lock_fd = lfd; // the other holder keeps its lock until the end of the case
            unlink(lp.c_str());
        }
        char name[64]; snprintf(name, sizeof name, "c%lu_%d.raw", icase, cy);
        static std::string real, uri;
        if (cy > 0 && vrng_chance(&g, 1, 4)) {
            // start again without configuring again: same path (the previous file was verified and removed)
            vbuf_printf(&g_log, "| (no set) start ");
            ++C.restarts_without_set;
        } else {
            uri = uri_spelling(&g, dir, name, &real);
            if (uri[0] == 'f') ++C.fileuri;
            struct StorageProperties props; memset(&props, 0, sizeof props);
            struct PixelScale ps = { 1, 1 };
            storage_properties_init(&props, 0, uri.c_str(), uri.size() + 1, 0, 0, ps, 0);
            vbuf_printf(&g_log, "| set(%s) start ", uri.c_str());
            if (storage_set(st, &props) != Device_Ok) { violation("C14", "set-failed", "storage_set failed for %s", uri.c_str()); storage_properties_destroy(&props); break; }
            storage_properties_destroy(&props);
        }
        if (storage_start(st) != Device_Ok) { violation("C14", "start-failed", "storage_start failed"); break; }
        int nframes = vrng_chance(&g, 1, 8) ? 0 : (int)vrng_range(&g, 1, 30);
        std::vector<uint8_t> buf; std::vector<FrameSpec> specs;
        build_frames(&g, buf, specs, nframes, vrng_chance(&g, 1, 2), (uint32_t)vrng_range(&g, 1, 64), (uint32_t)vrng_range(&g, 1, 32),
                     (int)vrng_below(&g, SampleTypeCount), 0);
        if (!nframes) ++C.empty_cycles;
        if (cy == nb_cycle && nb_when == 0) nb_close();
        if (cy == nb_cycle && nb_when == 1 && specs.size() > 1) {
            std::vector<FrameSpec> a(specs.begin(), specs.begin() + specs.size() / 2), b(specs.begin() + specs.size() / 2, specs.end());
            if (!append_in_packets(st, &g, buf, a)) { violation("C14", "append-failed", "storage_append failed without an injected fault"); break; }
            nb_close();
            if (!append_in_packets(st, &g, buf, b)) { violation("C14", "append-failed", "storage_append failed without an injected fault (after a neighbouring device was closed)"); break; }
        } else
        if (!append_in_packets(st, &g, buf, specs)) { violation("C14", "append-failed", "storage_append failed without an injected fault"); break; }
        vbuf_printf(&g_log, "stop ");
        if (storage_stop(st) != Device_Ok) { violation("C14", "stop-failed", "storage_stop failed"); break; }
        std::vector<uint8_t> got;
        if (!read_file(real, got)) { violation("C14", "file-missing", "no file at %s", real.c_str()); break; }
        ++C.files; C.frames += (unsigned long)nframes; C.bytes += buf.size(); ++C.cycles;
        if (got.size() != buf.size())
            violation("C14", "raw-size-mismatch", "cycle %d: file has %zu bytes, %zu were appended", cy, got.size(), buf.size());
        else if (buf.size() && memcmp(got.data(), buf.data(), buf.size()) != 0) {
            size_t k = 0; while (k < buf.size() && got[k] == buf[k]) ++k;
            violation("C14", "raw-content-mismatch", "cycle %d: first differing byte at offset %zu of %zu", cy, k, buf.size());
        }
        unlink(real.c_str());
        sig = vhash_add(sig, (uint64_t)nframes * 7 + (uint64_t)uri[0] + (cy == nb_cycle ? 1000u + (unsigned)nb_when + 10u * (unsigned)nb_kind : 0u));
    }
    nb_close();
    if (nb) { storage_close(nb); nb = 0; }
    if (nb_kind == 1 && !nb_path.empty() && !g_case_violated) {
        std::vector<uint8_t> got;
        if (!read_file(nb_path, got) || got.size() != nbuf.size() || (nbuf.size() && memcmp(got.data(), nbuf.data(), nbuf.size()) != 0))
            violation("C14", "raw-content-mismatch", "the neighbouring device's file (%zu bytes) is not what was appended to it before it was stopped (%zu bytes)", got.size(), nbuf.size());
    }
    if (!nb_path.empty()) unlink(nb_path.c_str());
    if (nb_lock_fd >= 0) __real_close(nb_lock_fd);
    storage_close(st);
    if (!IO.owned->empty() && !g_case_violated) { violation("C16", "descriptor-left-open", "%zu descriptor(s) still open after device close", IO.owned->size()); }
    for (int fd : *IO.owned) __real_close(fd);
    IO.owned->clear();
    ++C.cases; vset_add(&g_sigs, sig);
    if (icase % 997 == 0 && !g_case_violated) { printf("H {\"case\":\"%s\",\"oplog\":", g_casedesc); vjson_str(stdout, g_log.p); printf("}\n"); }
}

// ---- C14: a raw file beyond 4 GiB ----------------------------------------------------------------------
// Frames of 0.3-1.2 GiB whose pixels are zero except for the first and last 4 KiB, one frame per packet; the
// interposed pwrite stores only the first and last 8 KiB of each (the file is sparse on disk but byte-identical
// to a full write).  Checked: exact size, header + first and last pixel block of every frame at the sum of the
// preceding frame sizes, and no data anywhere else (SEEK_DATA).
static void run_rawbig_case(uint64_t seed, unsigned long icase, const std::string& dir)
{
    vrng g; vrng_seed(&g, seed, 0x1c, icase);
    snprintf(g_casedesc, sizeof g_casedesc, "rawbig %llu %lu 1", (unsigned long long)seed, icase);
    vbuf_reset(&g_log); g_case_violated = 0;
    IO.short_writes = 0; IO.site_kind = 0; IO.mode = F_NONE; IO.sparse = 1;
    struct Storage* st = open_device(BasicDevice_Storage_Raw);
    if (!st) { violation("C14", "open-failed", "storage_open(raw) failed"); return; }
    char name[64]; snprintf(name, sizeof name, "big%lu.raw", icase);
    std::string real, uri = uri_spelling(&g, dir, name, &real);
    struct StorageProperties props; memset(&props, 0, sizeof props);
    struct PixelScale ps = { 1, 1 };
    storage_properties_init(&props, 0, uri.c_str(), uri.size() + 1, 0, 0, ps, 0);
    vbuf_printf(&g_log, "| set(%s) start ", uri.c_str());
    enum DeviceStatusCode rc = storage_set(st, &props);
    storage_properties_destroy(&props);
    if (rc != Device_Ok || storage_start(st) != Device_Ok) { violation("C14", "start-failed", "set/start failed for %s", uri.c_str()); storage_close(st); return; }
    int type = vrng_chance(&g, 1, 2) ? SampleType_u8 : SampleType_u16;
    uint32_t w = (uint32_t)vrng_range(&g, 16384, 46000);
    uint64_t target = (uint64_t)vrng_range(&g, 300, 1200) << 20;
    uint32_t h = (uint32_t)(target / ((uint64_t)w * k_bpp[type]));
    size_t img = (size_t)w * h * k_bpp[type];
    size_t nbytes = align8(sizeof(struct VideoFrame) + img);
    int nframes = (int)(((4400ull << 20) + nbytes - 1) / nbytes) + (int)vrng_range(&g, 0, 3);
    uint8_t* fb = (uint8_t*)mmap(0, nbytes, PROT_READ | PROT_WRITE, MAP_PRIVATE | MAP_ANONYMOUS | MAP_NORESERVE, -1, 0);
    if (fb == MAP_FAILED) { printf("X {\"case\":\"%s\",\"what\":\"mmap of %zu bytes failed\"}\n", g_casedesc, nbytes); storage_close(st); return; }
    const size_t HB = sizeof(struct VideoFrame) + 4096; // what is kept of the beginning of each frame
    std::vector<std::vector<uint8_t>> heads, tails;
    bool ok = true;
    for (int i = 0; i < nframes && ok; ++i) {
        struct VideoFrame* f = (struct VideoFrame*)fb;
        memset(f, 0, sizeof *f);
        f->bytes_of_frame = nbytes;
        f->shape.dims.channels = 1; f->shape.dims.width = w; f->shape.dims.height = h; f->shape.dims.planes = 1;
        f->shape.strides.channels = 1; f->shape.strides.width = 1; f->shape.strides.height = w; f->shape.strides.planes = (int64_t)w * h;
        f->shape.type = (enum SampleType)type;
        f->frame_id = (uint64_t)i; f->hardware_frame_id = 700 + (uint64_t)i; f->timestamps.hardware = vrng_u64(&g) >> 8; f->timestamps.acq_thread = vrng_u64(&g) >> 8;
        for (size_t k = 0; k < 4096; ++k) { f->data[k] = (uint8_t)vrng_u64(&g); f->data[img - 4096 + k] = (uint8_t)vrng_u64(&g); }
        heads.emplace_back(fb, fb + HB);
        tails.emplace_back(fb + nbytes - 4200, fb + nbytes);
        vbuf_printf(&g_log, "append(1 frame,%zu B) ", nbytes);
        ++C.appends;
        if (storage_append(st, f, (const struct VideoFrame*)(fb + nbytes)) != Device_Ok) { violation("C14", "append-failed", "storage_append of frame %d (%zu bytes) failed without an injected fault", i, nbytes); ok = false; }
    }
    munmap(fb, nbytes);
    vbuf_printf(&g_log, "stop ");
    if (ok && storage_stop(st) != Device_Ok) { violation("C14", "stop-failed", "storage_stop failed"); ok = false; }
    if (ok) {
        int fd = __real_open(real.c_str(), O_RDONLY);
        struct stat sb; memset(&sb, 0, sizeof sb);
        if (fd < 0 || fstat(fd, &sb) != 0) violation("C14", "file-missing", "no file at %s", real.c_str());
        else if ((uint64_t)sb.st_size != (uint64_t)nframes * nbytes)
            violation("C14", "raw-size-mismatch", "file has %llu bytes, %d frames of %zu bytes (%llu bytes) were appended", (unsigned long long)sb.st_size, nframes, nbytes,
                      (unsigned long long)nframes * nbytes);
        else {
            std::vector<uint8_t> got(HB > 4200 ? HB : 4200);
            for (int i = 0; i < nframes && !g_case_violated; ++i) {
                off_t at = (off_t)((uint64_t)i * nbytes);
                if (pread(fd, got.data(), HB, at) != (ssize_t)HB || memcmp(got.data(), heads[(size_t)i].data(), HB) != 0)
                    violation("C14", "raw-content-mismatch", "frame %d: header/first pixels at offset %llu differ from what was appended", i, (unsigned long long)at);
                else if (pread(fd, got.data(), 4200, at + (off_t)nbytes - 4200) != 4200 || memcmp(got.data(), tails[(size_t)i].data(), 4200) != 0)
                    violation("C14", "raw-content-mismatch", "frame %d: last pixels before offset %llu differ from what was appended", i, (unsigned long long)(at + (off_t)nbytes));
            }
            // nothing but the kept blocks may hold data: everything else was zeros in the source and is a hole in the file
            off_t pos = 0;
            while (!g_case_violated) {
                off_t a = lseek(fd, pos, SEEK_DATA);
                if (a < 0) break;
                off_t b = lseek(fd, a, SEEK_HOLE);
                for (off_t x = a; x < b; x += 4096) {
                    uint64_t in = (uint64_t)x % nbytes; // position inside its frame
                    if (in >= 8192 + 4096 && in + 4096 + 8192 <= nbytes) {
                        violation("C14", "raw-content-mismatch", "data at offset %llu, in the middle of frame %llu where only zeros were appended", (unsigned long long)x, (unsigned long long)((uint64_t)x / nbytes));
                        break;
                    }
                }
                pos = b;
            }
            ++C.files; ++C.big_files; C.frames += (unsigned long)nframes; C.bytes += (unsigned long)nframes * nbytes; ++C.cycles;
        }
        if (fd >= 0) __real_close(fd);
    }
    unlink(real.c_str());
    storage_close(st);
    if (!IO.owned->empty() && !g_case_violated) violation("C16", "descriptor-left-open", "%zu descriptor(s) still open after device close", IO.owned->size());
    for (int fd : *IO.owned) __real_close(fd);
    IO.owned->clear();
    IO.sparse = 0;
    ++C.cases; vset_add(&g_sigs, vhash_add(vhash_init(), 0xb17ull * 64 + (uint64_t)nframes * 2 + (uint64_t)(type == SampleType_u16)));
}

// ---- C15: tiff / tiff-json -----------------------------------------------------------------------------
static const char* k_meta[] = { nullptr, "", "{}", "{\"hello\":\"world\"}", "{\"a\":{\"b\":[1,2,{\"c\":null}],\"d\":\"x y\"},\"n\":-1.5e3}",
                                // user text is data, not a format: percent signs and conversion look-alikes must come back unchanged
                                "{\"laser\":\"50% of max\",\"gain\":\"100%\"}", "{\"fmt\":\"%d %i %x %5.2f %%\",\"path\":\"C:\\\\data\\\\run%03d\"}" };
static const int k_nmeta = 7;

static void json_escape(FILE* f, const std::string& s) { vjson_str(f, s.c_str()); }

static void run_tiff_case(uint64_t seed, unsigned long icase, const std::string& dir)
{
    vrng g; vrng_seed(&g, seed, 0x16, icase);
    snprintf(g_casedesc, sizeof g_casedesc, "tiff %llu %lu 1", (unsigned long long)seed, icase);
    vbuf_reset(&g_log); g_case_violated = 0;
    IO.short_writes = vrng_chance(&g, 1, 2); vrng_seed(&IO.rng, seed, 0x17, icase);
    IO.site_kind = 0; IO.mode = F_NONE;
    int json_kind = vrng_chance(&g, 1, 2);
    struct Storage* st = open_device(json_kind ? BasicDevice_Storage_SideBySideTiffJson : BasicDevice_Storage_Tiff);
    if (!st) { violation("C15", "open-failed", "storage_open failed"); return; }
    int ncycles = (int)vrng_range(&g, 1, 3);
    uint64_t sig = vhash_init();
    for (int cy = 0; cy < ncycles && !g_case_violated; ++cy) {
        char name[64]; snprintf(name, sizeof name, "c%lu_%d%s", icase, cy, json_kind ? ".dir" : ".tif");
        std::string real, uri = uri_spelling(&g, dir, name, &real);
        std::string big;
        const char* meta = k_meta[vrng_below(&g, k_nmeta)];
        if (cy > 0 && vrng_chance(&g, 1, 2)) meta = vrng_chance(&g, 1, 2) ? nullptr : ""; // metadata changes to empty
        if (meta && vrng_chance(&g, 1, 8)) { // ~8 KiB of metadata
            big = "{\"big\":\""; big.append((size_t)vrng_range(&g, 3000, 9000), 'm'); big += "\"}"; meta = big.c_str();
        }
        struct PixelScale ps = { (double)vrng_range(&g, 0, 4), (double)vrng_range(&g, 0, 4) };
        if (vrng_chance(&g, 1, 3)) { ps.x = 0.5 * (double)vrng_range(&g, 1, 9); ps.y = 0.25 * (double)vrng_range(&g, 1, 9); }
        struct StorageProperties props; memset(&props, 0, sizeof props);
        storage_properties_init(&props, 0, uri.c_str(), uri.size() + 1, meta, meta ? strlen(meta) + 1 : 0, ps, 0);
        if (!meta) { // "no metadata" as the runtime passes it: an unset String, not ""
            storage_properties_set_external_metadata(&props, 0, 0);
            free(props.external_metadata_json.str);
            props.external_metadata_json = String{ 0, 0, 0 };
        }
        vbuf_printf(&g_log, "| %s set(%s, meta=%s) start ", json_kind ? "tiff-json" : "tiff", uri.c_str(), meta ? (strlen(meta) > 40 ? "(long)" : meta) : "NULL");
        if (storage_set(st, &props) != Device_Ok) {
            // tiff-json rejects an empty-string ("", 1 byte) metadata: a rejected configuration writes no file
            if (json_kind && meta && !*meta) { ++C.empty_cycles; storage_properties_destroy(&props); vbuf_printf(&g_log, "(rejected) "); continue; }
            violation("C15", "set-failed", "storage_set failed for %s", uri.c_str()); storage_properties_destroy(&props); break;
        }
        storage_properties_destroy(&props);
        if (storage_start(st) != Device_Ok) { violation("C15", "start-failed", "storage_start failed"); break; }
        int nframes = (int)vrng_range(&g, 1, 40);
        if (vrng_chance(&g, 1, 3)) nframes = (int)vrng_range(&g, 1, 4);
        std::vector<uint8_t> buf; std::vector<FrameSpec> specs;
        build_frames(&g, buf, specs, nframes, vrng_chance(&g, 1, 3), (uint32_t)vrng_range(&g, 1, 48), (uint32_t)vrng_range(&g, 1, 32),
                     (int)vrng_below(&g, SampleTypeCount), (uint64_t)vrng_below(&g, 3) * 100);
        if (!append_in_packets(st, &g, buf, specs)) { violation("C15", "append-failed", "storage_append failed without an injected fault"); break; }
        vbuf_printf(&g_log, "stop ");
        if (storage_stop(st) != Device_Ok) { violation("C15", "stop-failed", "storage_stop failed"); break; }
        // expectation for lib/bigtiff.py
        char en[96]; snprintf(en, sizeof en, "%s/expect_%lu_%d.json", dir.c_str(), icase, cy);
        char pn[96]; snprintf(pn, sizeof pn, "%s/pixels_%lu_%d.bin", dir.c_str(), icase, cy);
        FILE* pf = fopen(pn, "wb"); FILE* ef = fopen(en, "w");
        fprintf(ef, "{\"case\":\"%s\",\"cycle\":%d,\"kind\":\"%s\",\"tif\":", g_casedesc, cy, json_kind ? "tiff-json" : "tiff");
        json_escape(ef, json_kind ? real + "/data.tif" : real);
        fprintf(ef, ",\"metadata_json_path\":"); json_escape(ef, json_kind ? real + "/metadata.json" : "");
        fprintf(ef, ",\"metadata\":"); if (meta) json_escape(ef, meta); else fprintf(ef, "null");
        fprintf(ef, ",\"pixels\":"); json_escape(ef, pn);
        fprintf(ef, ",\"oplog\":"); json_escape(ef, g_log.p);
        fprintf(ef, ",\"frames\":[");
        for (size_t i = 0; i < specs.size(); ++i) {
            const FrameSpec& s = specs[i];
            fprintf(ef, "%s{\"w\":%u,\"h\":%u,\"bits\":%zu,\"fmt\":%d,\"frame_id\":%llu,\"hw\":%llu,\"ts_hw\":%llu,\"ts_acq\":%llu,\"img\":%zu}", i ? "," : "",
                    s.w, s.h, 8 * k_bpp[s.type], (s.type == SampleType_i8 || s.type == SampleType_i16) ? 2 : (s.type == SampleType_f32 ? 3 : 1),
                    (unsigned long long)s.frame_id, (unsigned long long)s.hw_id, (unsigned long long)s.ts_hw, (unsigned long long)s.ts_acq, s.img);
            fwrite(buf.data() + s.off + sizeof(struct VideoFrame), 1, s.img, pf);
        }
        fprintf(ef, "]}\n");
        fclose(ef); fclose(pf);
        ++C.files; C.frames += (unsigned long)nframes; C.bytes += buf.size(); ++C.cycles;
        sig = vhash_add(sig, (uint64_t)nframes * 16 + (uint64_t)json_kind * 8 + (uint64_t)(meta ? strlen(meta) > 0 : 0));
    }
    storage_close(st);
    if (!IO.owned->empty() && !g_case_violated) violation("C16,C15", "descriptor-left-open", "%zu descriptor(s) still open after device close", IO.owned->size());
    for (int fd : *IO.owned) __real_close(fd);
    IO.owned->clear();
    ++C.cases; vset_add(&g_sigs, sig);
}

// ---- C15: files beyond 4 GiB ---------------------------------------------------------------------------
// Frames of 0.6-1.4 GiB whose pixels are zero except for the first and last 4 KiB; the interposed pwrite
// stores only those two blocks, so the file on disk is sparse but byte-identical to a full write.
static void run_tiffbig_case(uint64_t seed, unsigned long icase, const std::string& dir)
{
    vrng g; vrng_seed(&g, seed, 0x1b, icase);
    snprintf(g_casedesc, sizeof g_casedesc, "tiffbig %llu %lu 1", (unsigned long long)seed, icase);
    vbuf_reset(&g_log); g_case_violated = 0;
    IO.short_writes = 0; IO.site_kind = 0; IO.mode = F_NONE; IO.sparse = 1;
    int json_kind = (int)(icase & 1);
    struct Storage* st = open_device(json_kind ? BasicDevice_Storage_SideBySideTiffJson : BasicDevice_Storage_Tiff);
    if (!st) { violation("C15", "open-failed", "storage_open failed"); return; }
    char name[64]; snprintf(name, sizeof name, "big%lu%s", icase, json_kind ? ".dir" : ".tif");
    std::string real, uri = uri_spelling(&g, dir, name, &real);
    const char* meta = k_meta[vrng_range(&g, 2, k_nmeta - 1)];
    struct PixelScale ps = { 1, 1 };
    struct StorageProperties props; memset(&props, 0, sizeof props);
    storage_properties_init(&props, 0, uri.c_str(), uri.size() + 1, meta, strlen(meta) + 1, ps, 0);
    vbuf_printf(&g_log, "| %s set(%s) start ", json_kind ? "tiff-json" : "tiff", uri.c_str());
    enum DeviceStatusCode rc = storage_set(st, &props);
    storage_properties_destroy(&props);
    if (rc != Device_Ok) { violation("C15", "set-failed", "storage_set failed for %s", uri.c_str()); storage_close(st); return; }
    if (storage_start(st) != Device_Ok) { violation("C15", "start-failed", "storage_start failed"); storage_close(st); return; }
    int type = vrng_chance(&g, 1, 2) ? SampleType_u8 : SampleType_u16;
    uint32_t w = (uint32_t)vrng_range(&g, 16384, 46000);
    uint64_t target = (uint64_t)vrng_range(&g, 600, 1400) << 20;
    uint32_t h = (uint32_t)(target / ((uint64_t)w * k_bpp[type]));
    size_t img = (size_t)w * h * k_bpp[type];
    size_t nbytes = align8(sizeof(struct VideoFrame) + img);
    int nframes = (int)(((4400ull << 20) + nbytes - 1) / nbytes) + (int)vrng_range(&g, 0, 2);
    uint8_t* fb = (uint8_t*)mmap(0, nbytes, PROT_READ | PROT_WRITE, MAP_PRIVATE | MAP_ANONYMOUS | MAP_NORESERVE, -1, 0);
    if (fb == MAP_FAILED) { printf("X {\"case\":\"%s\",\"what\":\"mmap of %zu bytes failed\"}\n", g_casedesc, nbytes); storage_close(st); return; }
    char en[128]; snprintf(en, sizeof en, "%s/expect_big%lu.json", dir.c_str(), icase);
    char pn[128]; snprintf(pn, sizeof pn, "%s/pixels_big%lu.bin", dir.c_str(), icase);
    int pfd = __real_open(pn, O_RDWR | O_CREAT | O_TRUNC, 0666);
    std::vector<FrameSpec> specs;
    bool ok = true;
    for (int i = 0; i < nframes && ok; ++i) {
        FrameSpec s{};
        s.w = w; s.h = h; s.type = type; s.img = img; s.nbytes = nbytes;
        s.frame_id = (uint64_t)i; s.hw_id = 500 + 2 * (uint64_t)i; s.ts_hw = vrng_u64(&g) >> 8; s.ts_acq = vrng_u64(&g) >> 8;
        struct VideoFrame* f = (struct VideoFrame*)fb;
        memset(f, 0, sizeof *f);
        f->bytes_of_frame = nbytes;
        f->shape.dims.channels = 1; f->shape.dims.width = w; f->shape.dims.height = h; f->shape.dims.planes = 1;
        f->shape.strides.channels = 1; f->shape.strides.width = 1; f->shape.strides.height = w; f->shape.strides.planes = (int64_t)w * h;
        f->shape.type = (enum SampleType)type;
        f->frame_id = s.frame_id; f->hardware_frame_id = s.hw_id; f->timestamps.hardware = s.ts_hw; f->timestamps.acq_thread = s.ts_acq;
        for (size_t k = 0; k < 4096; ++k) { f->data[k] = (uint8_t)vrng_u64(&g); f->data[img - 4096 + k] = (uint8_t)vrng_u64(&g); }
        if (__real_pwrite(pfd, f->data, 4096, (off_t)((uint64_t)i * img)) != 4096 ||
            __real_pwrite(pfd, f->data + img - 4096, 4096, (off_t)((uint64_t)i * img + img - 4096)) != 4096) { ok = false; break; }
        vbuf_printf(&g_log, "append(1 frame,%zu B) ", nbytes);
        ++C.appends;
        if (storage_append(st, f, (const struct VideoFrame*)(fb + nbytes)) != Device_Ok) { violation("C15", "append-failed", "storage_append of frame %d (%zu bytes) failed without an injected fault", i, nbytes); ok = false; }
        specs.push_back(s);
    }
    munmap(fb, nbytes);
    __real_close(pfd);
    vbuf_printf(&g_log, "stop ");
    if (ok && storage_stop(st) != Device_Ok) { violation("C15", "stop-failed", "storage_stop failed"); ok = false; }
    if (ok) {
        FILE* ef = fopen(en, "w");
        fprintf(ef, "{\"case\":\"%s\",\"cycle\":0,\"big\":true,\"kind\":\"%s\",\"tif\":", g_casedesc, json_kind ? "tiff-json" : "tiff");
        json_escape(ef, json_kind ? real + "/data.tif" : real);
        fprintf(ef, ",\"metadata_json_path\":"); json_escape(ef, json_kind ? real + "/metadata.json" : "");
        fprintf(ef, ",\"metadata\":"); json_escape(ef, meta);
        fprintf(ef, ",\"pixels\":"); json_escape(ef, pn);
        fprintf(ef, ",\"oplog\":"); json_escape(ef, g_log.p);
        fprintf(ef, ",\"frames\":[");
        for (size_t i = 0; i < specs.size(); ++i) {
            const FrameSpec& s = specs[i];
            fprintf(ef, "%s{\"w\":%u,\"h\":%u,\"bits\":%zu,\"fmt\":1,\"frame_id\":%llu,\"hw\":%llu,\"ts_hw\":%llu,\"ts_acq\":%llu,\"img\":%zu}", i ? "," : "",
                    s.w, s.h, 8 * k_bpp[s.type], (unsigned long long)s.frame_id, (unsigned long long)s.hw_id, (unsigned long long)s.ts_hw, (unsigned long long)s.ts_acq, s.img);
        }
        fprintf(ef, "]}\n");
        fclose(ef);
        ++C.files; ++C.big_files; C.frames += (unsigned long)nframes; C.bytes += (unsigned long)nframes * nbytes; ++C.cycles;
    } else unlink(pn);
    storage_close(st);
    if (!IO.owned->empty() && !g_case_violated) violation("C16,C15", "descriptor-left-open", "%zu descriptor(s) still open after device close", IO.owned->size());
    for (int fd : *IO.owned) __real_close(fd);
    IO.owned->clear();
    IO.sparse = 0;
    ++C.cases; vset_add(&g_sigs, vhash_add(vhash_init(), 0xb16ull * 64 + (uint64_t)nframes * 4 + (uint64_t)json_kind * 2 + (uint64_t)(type == SampleType_u16)));
}

// ---- C16: fault enumeration ------------------------------------------------------------------------------
static int kind_of(const char* s)
{
    if (!strcmp(s, "raw")) return BasicDevice_Storage_Raw;
    if (!strcmp(s, "tiff")) return BasicDevice_Storage_Tiff;
    if (!strcmp(s, "tiff-json")) return BasicDevice_Storage_SideBySideTiffJson;
    return BasicDevice_Storage_Trash;
}
// returns true when the append reported the failure (left the running state)
static void do_append(struct Storage* st, const std::vector<uint8_t>& buf, const std::vector<FrameSpec>& specs, size_t i0, size_t k)
{
    const uint8_t* beg = buf.data() + specs[i0].off;
    const uint8_t* end = buf.data() + specs[i0 + k - 1].off + specs[i0 + k - 1].nbytes;
    unsigned long fired0 = IO.faults_fired;
    enum DeviceState before = storage_get_state(st);
    vbuf_printf(&g_log, "append(%zu) ", k);
    enum DeviceStatusCode rc = storage_append(st, (const struct VideoFrame*)beg, (const struct VideoFrame*)end);
    enum DeviceState after = storage_get_state(st);
    vbuf_printf(&g_log, "[%s->%s rc=%d faults=%lu] ", device_state_as_string(before), device_state_as_string(after), (int)rc, IO.faults_fired - fired0);
    if (IO.faults_fired != fired0 && before == DeviceState_Running && after == DeviceState_Running)
        violation("C16", "write-failure-not-reported", "a write failed during this append but the device is still Running at its end (rc=%d)", (int)rc);
    if (IO.faults_fired != fired0 && before == DeviceState_Running && rc == Device_Ok)
        violation("C16", "write-failure-not-reported", "a write failed during this append but storage_append returned Ok");
}
static void run_fault_case(const char* kind_s, int tmpl, const char* dir)
{
    int kind = kind_of(kind_s);
    vrng g; vrng_seed(&g, 99, (uint64_t)kind, (uint64_t)tmpl);
    std::vector<uint8_t> buf; std::vector<FrameSpec> specs;
    build_frames(&g, buf, specs, 6, false, 5, 3, SampleType_u16, 0);
    struct Storage* st = open_device(kind);
    if (!st) { violation("C16", "open-failed", "storage_open failed"); return; }
    auto set = [&](int cy) {
        char name[64]; snprintf(name, sizeof name, "f_%d%s", cy, kind == BasicDevice_Storage_SideBySideTiffJson ? ".dir" : ".out");
        std::string uri = std::string(dir) + "/" + name;
        struct StorageProperties props; memset(&props, 0, sizeof props);
        struct PixelScale ps = { 1, 1 };
        const char* meta = "{\"k\":1}";
        storage_properties_init(&props, 0, uri.c_str(), uri.size() + 1, meta, strlen(meta) + 1, ps, 0);
        vbuf_printf(&g_log, "set ");
        storage_set(st, &props);
        storage_properties_destroy(&props);
        vbuf_printf(&g_log, "[%s] ", device_state_as_string(storage_get_state(st)));
    };
    auto start = [&]() { vbuf_printf(&g_log, "start "); storage_start(st); vbuf_printf(&g_log, "[%s] ", device_state_as_string(storage_get_state(st))); };
    auto stop = [&]() { vbuf_printf(&g_log, "stop "); storage_stop(st); vbuf_printf(&g_log, "[%s] ", device_state_as_string(storage_get_state(st))); };
    switch (tmpl) {
        case 0: break;                                               // open / close only
        case 1: set(0); break;                                       // configured, never started
        case 2: set(0); start(); stop(); break;
        case 3: set(0); start(); do_append(st, buf, specs, 0, 1); do_append(st, buf, specs, 1, 2); do_append(st, buf, specs, 3, 3); stop(); break;
        case 4: set(0); start(); do_append(st, buf, specs, 0, 2); stop(); set(1); start(); do_append(st, buf, specs, 2, 2); do_append(st, buf, specs, 4, 1); stop(); break;
        case 5: set(0); start(); do_append(st, buf, specs, 0, 1); do_append(st, buf, specs, 1, 1); break; // close while running
        case 6: set(0); start(); do_append(st, buf, specs, 0, 1); stop(); stop(); start(); do_append(st, buf, specs, 1, 1); stop(); break; // restart without set
        case 7: set(0); set(1); start(); do_append(st, buf, specs, 0, 3); do_append(st, buf, specs, 3, 1); do_append(st, buf, specs, 4, 2); stop(); set(0); break;
    }
    vbuf_printf(&g_log, "close ");
    storage_close(st);
    if (!IO.owned->empty()) violation("C16", "descriptor-left-open", "%zu descriptor(s) still open after device close", IO.owned->size());
}

int main(int argc, char** argv)
{
    if (argc < 6) { fprintf(stderr, "usage\n"); return 2; }
    setvbuf(stdout, 0, _IOFBF, 1 << 16);
    IO.owned = new std::set<int>();
    vset_init(&g_sigs, 1 << 12);
    g_loud = getenv("VERIF_LOUD") != 0;
    g_driver = acquire_driver_init_v0(reporter);
    const char* mode = argv[1];
    if (!strcmp(mode, "raw") || !strcmp(mode, "tiff") || !strcmp(mode, "tiffbig") || !strcmp(mode, "rawbig")) {
        uint64_t seed = strtoull(argv[2], 0, 10);
        unsigned long first = strtoul(argv[3], 0, 10), count = strtoul(argv[4], 0, 10);
        std::string dir = argv[5];
        mkdir(dir.c_str(), 0777);
        if (chdir(dir.c_str()) != 0) return 2;
        g_props = mode[0] == 'r' ? "C14" : "C15";
        for (unsigned long c = first; c < first + count; ++c) {
            if (mode[0] == 'r') { if (mode[3]) run_rawbig_case(seed, c, dir); else run_raw_case(seed, c, dir); }
            else if (mode[4]) run_tiffbig_case(seed, c, dir); else run_tiff_case(seed, c, dir);
            if (g_nviol > 20) break;
        }
        printf("S {\"mode\":\"%s\",\"cases\":%lu,\"violations\":%lu,\"cycles\":%lu,\"appends\":%lu,\"frames\":%lu,\"bytes\":%lu,\"files\":%lu,"
               "\"empty_cycles\":%lu,\"restarts_without_set\":%lu,\"locked_neighbours\":%lu,\"files_over_4gib\":%lu,\"file_uri_spellings\":%lu,\"opens\":%lu,\"pwrites\":%lu,\"short_writes\":%lu,\"closes\":%lu,\"distinct\":%zu}\n",
               mode, C.cases, g_nviol, C.cycles, C.appends, C.frames, C.bytes, C.files, C.empty_cycles, C.restarts_without_set, C.neighbours, C.big_files, C.fileuri, IO.n_open, IO.n_pwrite, IO.shorts,
               IO.n_close, g_sigs.n);
        const char* hp = getenv("VERIF_HASH_OUT");
        if (hp) vset_dump(&g_sigs, hp);
    } else if (!strcmp(mode, "fault")) {
        if (argc < 8) return 2;
        g_props = "C16";
        const char* kind = argv[2]; int tmpl = atoi(argv[3]);
        IO.site_kind = !strcmp(argv[4], "open") ? 1 : !strcmp(argv[4], "pwrite") ? 2 : !strcmp(argv[4], "flock") ? 3 : 0;
        IO.site = atol(argv[5]);
        const char* m = argv[6];
        IO.mode = !strcmp(m, "eacces") ? F_EACCES : !strcmp(m, "enospc") ? F_ENOSPC : !strcmp(m, "eio") ? F_EIO :
                  !strcmp(m, "shortfail") ? F_SHORTFAIL : !strcmp(m, "zero") ? F_ZERO : F_NONE;
        snprintf(g_casedesc, sizeof g_casedesc, "fault %s %d %s %ld %s", kind, tmpl, argv[4], IO.site, m);
        mkdir(argv[7], 0777);
        // runaway recursion must die quickly and visibly; a hang must not outlive the watchdog
        struct rlimit rl = { 1 << 20, 1 << 20 }; setrlimit(RLIMIT_STACK, &rl);
        alarm(60);
        // W record first: if the process dies, the parent still has the op log up to the crash via 'P' lines
        run_fault_case(kind, tmpl, argv[7]);
        printf("S {\"mode\":\"fault\",\"case\":\"%s\",\"violations\":%lu,\"opens\":%lu,\"pwrites\":%lu,\"closes\":%lu,\"flocks\":%lu,\"faults_fired\":%lu,\"oplog\":",
               g_casedesc, g_nviol, IO.n_open, IO.n_pwrite, IO.n_close, IO.n_flock, IO.faults_fired);
        vjson_str(stdout, g_log.p ? g_log.p : ""); printf("}\n");
    } else return 2;
    fflush(stdout);
    return 0;
}
