// H7 -- simulated-camera harness (C17, C18).  See DESIGN.md section 4/H7.
//
//   simcam_harness shape  <seed> <first> <count> [maxpx]     C17: configuration/shape/memory safety
//   simcam_harness stream <seed> <first> <count>             C18: ids, trigger gating, stop
//
// The real simulated.camera.c (+ imfill/popcount/pcg, platform) is linked directly and driven
// through the HAL's camera_* functions.  lock_acquire / condition_variable_wait / clock_sleep_ms
// are interposed to inject delays at the camera's own suspension points (stream mode).
#define _GNU_SOURCE
#include "device/hal/camera.h"
#include "device/kit/camera.h"
#include "device/props/camera.h"
#include "device/props/components.h"
#include "simcams/simulated.camera.h"
#include "identifiers.h"
#include "logger.h"
#include "platform.h"
#include "vcommon.h"

#include <pthread.h>
#include <stdatomic.h>
#include <time.h>
#include <unistd.h>

static vbuf g_log;
static char g_casedesc[128];
static const char* g_props = "C17";
static unsigned long g_nviol;
static int g_case_violated;
static pthread_mutex_t g_out = PTHREAD_MUTEX_INITIALIZER;

static void violation(const char* key, const char* fmt, ...)
{
    char msg[500]; va_list ap; va_start(ap, fmt); vsnprintf(msg, sizeof msg, fmt, ap); va_end(ap);
    pthread_mutex_lock(&g_out);
    ++g_nviol; g_case_violated = 1;
    printf("V {\"props\":\"%s\",\"key\":\"%s\",\"case\":\"%s\",\"msg\":", g_props, key, g_casedesc);
    vjson_str(stdout, msg);
    printf(",\"oplog\":"); vjson_str(stdout, g_log.p ? g_log.p : ""); printf("}\n");
    fflush(stdout);
    pthread_mutex_unlock(&g_out);
}
void __asan_on_error(void)
{
    printf("A {\"props\":\"%s\",\"case\":\"%s\",\"oplog\":", g_props, g_casedesc);
    vjson_str(stdout, g_log.p ? g_log.p : ""); printf("}\n");
    fflush(stdout);
}
static double now_s(void) { struct timespec t; clock_gettime(CLOCK_MONOTONIC, &t); return t.tv_sec + 1e-9 * t.tv_nsec; }

// ---- delay injection at the camera's suspension points -------------------------------------------
void __real_lock_acquire(struct lock*);
void __real_condition_variable_wait(struct condition_variable*, struct lock*);
void __real_clock_sleep_ms(struct clock*, float);
static _Atomic int g_inject;
static __thread uint64_t t_rng;
static void maybe_delay(void)
{
    if (!atomic_load(&g_inject)) return;
    if (!t_rng) t_rng = (uint64_t)(uintptr_t)&t_rng ^ 0x9E3779B97F4A7C15ULL;
    uint64_t x = splitmix64(&t_rng);
    unsigned sel = (unsigned)(x & 15);
    if (sel < 9) return;
    if (sel < 13) { sched_yield(); return; }
    struct timespec ts = { 0, (long)(1000 + (x >> 8) % 300000) };
    nanosleep(&ts, 0);
}
void __wrap_lock_acquire(struct lock* l) { maybe_delay(); __real_lock_acquire(l); }
void __wrap_condition_variable_wait(struct condition_variable* c, struct lock* l) { maybe_delay(); __real_condition_variable_wait(c, l); }
void __wrap_clock_sleep_ms(struct clock* c, float ms) { __real_clock_sleep_ms(c, ms); maybe_delay(); }

static const size_t k_bpp[] = { 1, 2, 1, 2, 4, 2, 2, 2 };
static const char* k_kind[] = { "random", "sin", "empty" };
static const char* k_type[] = { "u8", "u16", "i8", "i16", "f32", "u10", "u12", "u14" };

static struct { unsigned long cases, sets, rejected_sets, starts, frames, bytes, binned_cases, clamped, maxshape, reconfigs,
                runs, triggers, trigger_runs, pending_at_stop, restarts_checked, restarts_without_set, live_sets, live_resizes, timebound_checked, failed_frame_calls, ids_ahead_of_pacing; } C;
static vset g_sigs;

// ---- C17 ------------------------------------------------------------------------------------------------
static uint32_t pick_dim(vrng* g, uint32_t cap)
{
    uint32_t v;
    switch (vrng_below(g, 12)) {
        case 0: v = 1; break;
        case 1: v = (uint32_t)vrng_range(g, 31, 33); break;
        case 2: v = (uint32_t)vrng_range(g, 63, 65); break;
        case 3: v = 2 * (uint32_t)vrng_range(g, 1, 40) + 1; break;   // odd
        case 4: v = 8192; break;                                       // maximum (clamped by binning)
        case 5: v = (uint32_t)vrng_range(g, 8193, 20000); break;      // beyond the maximum
        case 6: v = 0; break;                                          // below the minimum
        case 7: v = (uint32_t)vrng_range(g, 100, 700); break;
        default: v = (uint32_t)vrng_range(g, 2, 96); break;
    }
    (void)cap;
    return v;
}
static uint32_t clampu(uint32_t v, uint32_t lo, uint32_t hi) { return v < lo ? lo : (v > hi ? hi : v); }

static void run_shape_case(uint64_t seed, unsigned long icase, uint64_t maxpx)
{
    vrng g; vrng_seed(&g, seed, 0x17, icase);
    snprintf(g_casedesc, sizeof g_casedesc, "shape %llu %lu 1 %llu", (unsigned long long)seed, icase, (unsigned long long)maxpx);
    vbuf_reset(&g_log); g_case_violated = 0;
    int kind = (int)vrng_below(&g, 3);
    struct Camera* cam = simcam_make_camera((enum BasicDeviceKind)kind);
    if (!cam) { violation("make-failed", "simcam_make_camera failed"); return; }
    vbuf_printf(&g_log, "%s | ", k_kind[kind]);
    int nsets = (int)vrng_range(&g, 1, 4);
    uint64_t sig = vhash_add(vhash_init(), (uint64_t)kind);
    int any_binned = 0;
    for (int s = 0; s < nsets && !g_case_violated; ++s) {
        struct CameraProperties p; memset(&p, 0, sizeof p);
        static const uint8_t bins[] = { 1, 2, 4, 8, 1, 2, 0, 3 };
        p.binning = bins[vrng_below(&g, 8)];
        p.pixel_type = (enum SampleType)vrng_below(&g, SampleTypeCount);
        p.exposure_time_us = (float)vrng_range(&g, 50, 500);
        p.input_triggers.frame_start.enable = (uint8_t)vrng_chance(&g, 1, 3); // with the software trigger, every frame call is preceded by a trigger
        uint8_t b = p.binning ? p.binning : 1;
        int valid_binning = (b & (b - 1)) == 0;
        uint32_t cap = (uint32_t)(8192 / (valid_binning ? b : 1));
        // keep the rendered (full resolution) image below maxpx pixels unless this is a "max" case
        for (int tries = 0; tries < 50; ++tries) {
            p.shape.x = pick_dim(&g, cap); p.shape.y = pick_dim(&g, cap);
            uint64_t fx = (uint64_t)clampu(p.shape.x, 1, cap) * b, fy = (uint64_t)clampu(p.shape.y, 1, cap) * b;
            if (fx * fy <= maxpx) break;
            if (tries == 49) { p.shape.x = (uint32_t)vrng_range(&g, 1, 64); p.shape.y = (uint32_t)vrng_range(&g, 1, 64); }
        }
        p.offset.x = vrng_chance(&g, 1, 2) ? 0 : (uint32_t)vrng_range(&g, 0, 9000);
        p.offset.y = vrng_chance(&g, 1, 2) ? 0 : (uint32_t)vrng_range(&g, 0, 9000);
        const struct CameraProperties req = p;
        vbuf_printf(&g_log, "set(bin=%u,%s,%ux%u,off=%u,%u%s) ", p.binning, k_type[p.pixel_type], p.shape.x, p.shape.y, p.offset.x, p.offset.y, p.input_triggers.frame_start.enable ? ",trig" : "");
        ++C.sets;
        enum DeviceStatusCode rc = camera_set(cam, &p);
        if (!valid_binning) {
            ++C.rejected_sets;
            if (rc == Device_Ok) violation("invalid-binning-accepted", "binning %u accepted", req.binning);
            vbuf_printf(&g_log, "(rejected) ");
            continue; // camera is now AwaitingConfiguration; next set re-arms
        }
        if (rc != Device_Ok) { violation("set-failed", "camera_set failed for an acceptable configuration"); break; }
        if (s) ++C.reconfigs;
        if (b > 1) any_binned = 1;
        // ---- reported shape -------------------------------------------------------------------
        struct ImageShape sh; memset(&sh, 0xee, sizeof sh);
        if (camera_get_image_shape(cam, &sh) != Device_Ok) { violation("get-shape-failed", "camera_get_image_shape failed"); break; }
        uint32_t ew = clampu(req.shape.x, 1, cap), eh = clampu(req.shape.y, 1, cap);
        if (ew != req.shape.x || eh != req.shape.y) ++C.clamped;
        if (ew == cap || eh == cap) ++C.maxshape;
        if (sh.dims.channels != 1 || sh.dims.width != ew || sh.dims.height != eh || sh.dims.planes != 1)
            violation("shape-not-clamped-request", "get_shape says %ux%ux%ux%u, requested %ux%u with binning %u => expected 1x%ux%ux1",
                      sh.dims.channels, sh.dims.width, sh.dims.height, sh.dims.planes, req.shape.x, req.shape.y, b, ew, eh);
        if (sh.strides.channels != 1 || sh.strides.width != 1 || sh.strides.height != (int64_t)ew || sh.strides.planes != (int64_t)ew * eh)
            violation("strides-mismatch", "strides (%lld,%lld,%lld,%lld) do not match %ux%u", (long long)sh.strides.channels,
                      (long long)sh.strides.width, (long long)sh.strides.height, (long long)sh.strides.planes, ew, eh);
        if (sh.type != req.pixel_type) violation("type-mismatch", "get_shape type %d, requested %d", (int)sh.type, (int)req.pixel_type);
        // ---- values read back -------------------------------------------------------------------
        struct CameraProperties back; memset(&back, 0xee, sizeof back);
        if (camera_get(cam, &back) != Device_Ok) { violation("get-failed", "camera_get failed"); break; }
        if (back.shape.x != ew || back.shape.y != eh || back.binning != b || back.pixel_type != req.pixel_type ||
            back.input_triggers.frame_start.enable != req.input_triggers.frame_start.enable || back.exposure_time_us != req.exposure_time_us)
            violation("readback-mismatch", "get returned shape %ux%u bin %u type %d exposure %g; in effect %ux%u bin %u type %d exposure %g",
                      back.shape.x, back.shape.y, back.binning, (int)back.pixel_type, (double)back.exposure_time_us, ew, eh, b,
                      (int)req.pixel_type, (double)req.exposure_time_us);
        if (g_case_violated) break;
        // ---- frames -------------------------------------------------------------------------------
        size_t nbytes = (size_t)ew * eh * k_bpp[req.pixel_type];
        if (bytes_of_image(&sh) != nbytes) { violation("bytes-of-image-mismatch", "bytes_of_image=%zu expected %zu", bytes_of_image(&sh), nbytes); break; }
        int nruns = (int)vrng_range(&g, 0, 2);
        if (s == nsets - 1 && nruns == 0) nruns = 1;
        uint8_t* everdiff = (uint8_t*)calloc(1, nbytes);
        int total_frames = 0;
        for (int r = 0; r < nruns && !g_case_violated; ++r) {
            vbuf_printf(&g_log, "start ");
            ++C.starts;
            if (camera_start(cam) != Device_Ok) { violation("start-failed", "camera_start failed"); break; }
            int nf = nbytes > (8u << 20) ? 2 : (int)vrng_range(&g, 1, 6);
            if (r == nruns - 1 && total_frames + nf < 6 && nbytes <= (8u << 20)) nf = 6 - total_frames;
            int live_set_at = vrng_chance(&g, 1, 4) ? (int)vrng_below(&g, (uint64_t)nf) : -1;
            for (int f = 0; f < nf && !g_case_violated; ++f) {
                if (f == live_set_at) {
                    // "set" is also legal while the camera is running: the same settings again (the buffers are reallocated)
                    struct CameraProperties q = req;
                    vbuf_printf(&g_log, "live-set ");
                    if (camera_set(cam, &q) != Device_Ok) violation("set-failed", "camera_set of the settings in effect failed while running");
                    ++C.live_sets;
                }
                // exact-size block: one byte too many written by the camera is an ASan report
                uint8_t* im = (uint8_t*)malloc(nbytes);
                uint64_t pk = vmix(vmix(seed, icase), (uint64_t)(s * 64 + r * 8 + f));
                for (size_t i = 0; i < nbytes; ++i) im[i] = (uint8_t)(vmix(pk, i >> 3) >> (8 * (i & 7)));
                size_t nb = nbytes; struct ImageInfo info; memset(&info, 0, sizeof info);
                if (req.input_triggers.frame_start.enable) { camera_execute_trigger(cam); ++C.triggers; }
                if (camera_get_frame(cam, im, &nb, &info) != Device_Ok) { violation("get-frame-failed", "camera_get_frame failed"); free(im); break; }
                if (memcmp(&info.shape, &sh, sizeof sh) != 0) violation("frame-shape-mismatch", "frame info shape differs from get_shape");
                for (size_t i = 0; i < nbytes; ++i)
                    if (im[i] != (uint8_t)(vmix(pk, i >> 3) >> (8 * (i & 7)))) everdiff[i] = 1;
                free(im);
                ++total_frames; ++C.frames; C.bytes += nbytes;
                vbuf_printf(&g_log, "f ");
            }
            if (r == nruns - 1 && req.input_triggers.frame_start.enable && !g_case_violated && vrng_chance(&g, 1, 2)) {
                // "set" with another region while the camera is live and its streamer waits for the next trigger:
                // the next triggered frame has the new shape and fills exactly the new number of bytes
                struct CameraProperties q = req;
                q.shape.x = (uint32_t)vrng_range(&g, 1, cap < 200 ? cap : 200); q.shape.y = (uint32_t)vrng_range(&g, 1, cap < 120 ? cap : 120);
                vbuf_printf(&g_log, "live-set(%ux%u) ", q.shape.x, q.shape.y);
                if (camera_set(cam, &q) != Device_Ok) violation("set-failed", "camera_set of another region failed while running");
                else {
                    struct ImageShape sh2; memset(&sh2, 0xee, sizeof sh2);
                    size_t nb2 = (size_t)q.shape.x * q.shape.y * k_bpp[req.pixel_type];
                    if (camera_get_image_shape(cam, &sh2) != Device_Ok || sh2.dims.width != q.shape.x || sh2.dims.height != q.shape.y)
                        violation("shape-not-clamped-request", "after a live set of %ux%u get_shape says %ux%u", q.shape.x, q.shape.y, sh2.dims.width, sh2.dims.height);
                    else {
                        uint8_t* im = (uint8_t*)malloc(nb2); memset(im, 0x5a, nb2);
                        size_t nb = nb2; struct ImageInfo info; memset(&info, 0, sizeof info);
                        camera_execute_trigger(cam); ++C.triggers;
                        if (camera_get_frame(cam, im, &nb, &info) != Device_Ok) violation("get-frame-failed", "camera_get_frame failed after a live set of another region");
                        else if (info.shape.dims.width != q.shape.x || info.shape.dims.height != q.shape.y)
                            violation("frame-shape-mismatch", "frame after a live set of %ux%u is reported as %ux%u", q.shape.x, q.shape.y, info.shape.dims.width, info.shape.dims.height);
                        free(im);
                        ++C.live_resizes; ++C.frames;
                    }
                }
            }
            vbuf_printf(&g_log, "stop ");
            if (camera_stop(cam) != Device_Ok) violation("stop-failed", "camera_stop failed");
        }
        if (!g_case_violated && total_frames >= 6) {
            // every image byte must have been written at least once in 6 frames with 6 different pre-fills
            size_t unfilled = 0, firstu = 0;
            for (size_t i = 0; i < nbytes; ++i) if (!everdiff[i]) { if (!unfilled) firstu = i; ++unfilled; }
            if (unfilled)
                violation("frame-not-filled", "%zu of %zu image bytes never written by get_frame in %d frames (first at %zu)",
                          unfilled, nbytes, total_frames, firstu);
        }
        free(everdiff);
        sig = vhash_add(sig, (uint64_t)b * 1000003u + (uint64_t)req.pixel_type * 7919u + (uint64_t)ew * 131u + eh);
    }
    simcam_close_camera(cam);
    if (any_binned) ++C.binned_cases;
    ++C.cases; vset_add(&g_sigs, sig);
    if (icase % 97 == 0 && !g_case_violated) { printf("H {\"case\":\"%s\",\"oplog\":", g_casedesc); vjson_str(stdout, g_log.p); printf("}\n"); }
}

// ---- C18 ----------------------------------------------------------------------------------------------------
struct run_ctx {
    struct Camera* cam;
    size_t nbytes;
    int trigger_enabled;
    _Atomic long triggers_issued;     // bumped BEFORE the trigger call
    _Atomic long delivered;
    _Atomic int consumer_done, stop_consumer, in_get_frame;
    long want;                        // frames the consumer tries to get
    int fail_last;                    // finish with a frame call whose buffer is too small (must fail and stop the camera)
    int fail_last_rc;
    int64_t last_id, first_id;
    double t_start; float exposure_ms;
    uint64_t seed;
};
static void* consumer_main(void* a)
{
    struct run_ctx* r = (struct run_ctx*)a;
    uint8_t* im = (uint8_t*)malloc(r->nbytes);
    vrng g; vrng_seed(&g, r->seed, 0xC0, 0);
    r->last_id = -1; r->first_id = -1;
    while (!atomic_load(&r->stop_consumer) && atomic_load(&r->delivered) < r->want) {
        size_t nb = r->nbytes; struct ImageInfo info; memset(&info, 0xff, sizeof info);
        memset(im, 0xA5, 8 < r->nbytes ? 8 : r->nbytes);
        atomic_store(&r->in_get_frame, 1);
        long trig_before_return;
        enum DeviceStatusCode rc = camera_get_frame(r->cam, im, &nb, &info);
        trig_before_return = atomic_load(&r->triggers_issued);
        atomic_store(&r->in_get_frame, 0);
        if (rc != Device_Ok) break;                    // camera stopped / not running
        if (info.hardware_frame_id == UINT64_MAX) break; // shutdown path: no frame delivered
        int64_t id = (int64_t)info.hardware_frame_id;
        long n = atomic_fetch_add(&r->delivered, 1) + 1;
        if (id <= r->last_id)
            violation("frame-id-not-increasing", "hardware_frame_id %lld after %lld in the same run", (long long)id, (long long)r->last_id);
        if (r->first_id < 0) r->first_id = id;
        r->last_id = id;
        if (r->trigger_enabled) {
            if (n > trig_before_return)
                violation(trig_before_return == 0 ? "frame-without-trigger" : "more-frames-than-triggers",
                          "%ld frame(s) delivered but only %ld trigger(s) issued in this run", n, trig_before_return);
            if (id >= trig_before_return)
                violation("frame-id-exceeds-triggers", "hardware_frame_id %lld with only %ld triggers issued since start (ids count generated frames and restart at 0: untriggered frames were generated or the count was not restarted)",
                          (long long)id, trig_before_return);
        } else if (r->exposure_ms >= 2.0f) {
            // free running: the camera needs at least one exposure per generated frame
            double el_ms = (now_s() - r->t_start) * 1e3;
            // Pacing is not part of the property (a camera that generates frames faster than its exposure would
            // not violate it), so an id far ahead of elapsed/exposure is only counted, not judged.  The exact
            // restart check is the trigger-mode one above.
            if ((double)id > 3.0 * el_ms / r->exposure_ms + 3.0) ++C.ids_ahead_of_pacing;
            ++C.timebound_checked;
        }
        if (vrng_chance(&g, 1, 6)) { struct timespec ts = { 0, (long)vrng_range(&g, 1000, 400000) }; nanosleep(&ts, 0); }
    }
    if (r->fail_last && !atomic_load(&r->stop_consumer) && atomic_load(&r->delivered) >= r->want) {
        size_t nb = r->nbytes - 1; struct ImageInfo info; memset(&info, 0xff, sizeof info);
        r->fail_last_rc = 1 + (int)camera_get_frame(r->cam, im, &nb, &info);
    }
    free(im);
    atomic_store(&r->consumer_done, 1);
    return 0;
}
struct trig_ctx { struct run_ctx* r; long n; uint64_t seed; _Atomic int stop; int paced; };
static void* trigger_main(void* a)
{
    struct trig_ctx* t = (struct trig_ctx*)a;
    vrng g; vrng_seed(&g, t->seed, 0xC1, 0);
    for (long i = 0; i < t->n && !atomic_load(&t->stop); ++i) {
        if (vrng_chance(&g, 2, 3)) { struct timespec ts = { 0, (long)vrng_range(&g, 1000, 600000) }; nanosleep(&ts, 0); }
        long issued = atomic_fetch_add(&t->r->triggers_issued, 1) + 1;
        camera_execute_trigger(t->r->cam);
        if (t->paced) { // let the consumer take the frame of this trigger (bounded wait; coalescing stays legal)
            double t0 = now_s();
            while (atomic_load(&t->r->delivered) < issued && !atomic_load(&t->r->consumer_done) && now_s() - t0 < 0.25) {
                struct timespec ts = { 0, 50000 }; nanosleep(&ts, 0);
            }
        }
    }
    return 0;
}
// wait until cond or timeout; returns 1 if cond became true
static int wait_flag(_Atomic int* f, double timeout_s)
{
    double t0 = now_s();
    while (!atomic_load(f)) {
        if (now_s() - t0 > timeout_s) return 0;
        struct timespec ts = { 0, 200000 }; nanosleep(&ts, 0);
    }
    return 1;
}
static _Atomic int g_stop_returned;
static void* stopper_main(void* a) { camera_stop((struct Camera*)a); atomic_store(&g_stop_returned, 1); return 0; }

static void run_stream_case(uint64_t seed, unsigned long icase)
{
    vrng g; vrng_seed(&g, seed, 0x18, icase);
    snprintf(g_casedesc, sizeof g_casedesc, "stream %llu %lu 1", (unsigned long long)seed, icase);
    vbuf_reset(&g_log); g_case_violated = 0;
    int kind = (int)vrng_below(&g, 3);
    struct Camera* cam = simcam_make_camera((enum BasicDeviceKind)kind);
    vbuf_printf(&g_log, "%s | ", k_kind[kind]);
    atomic_store(&g_inject, vrng_chance(&g, 3, 4));
    int nruns = (int)vrng_range(&g, 3, 6);
    uint64_t sig = vhash_add(vhash_init(), (uint64_t)kind);
    int prev_trig = 0;
    struct CameraProperties p; memset(&p, 0, sizeof p);
    int trig = 0; float exp_us = 0;
    for (int run = 0; run < nruns && !g_case_violated; ++run) {
        int extra_sets = 0;
        if (run > 0 && vrng_chance(&g, 1, 4)) {
            // started again as it is, without configuring in between (what acquire_start after acquire_stop does)
            vbuf_printf(&g_log, "(no set) start ");
            extra_sets = 3; ++C.restarts_without_set;
        } else {
        memset(&p, 0, sizeof p);
        p.binning = 1; p.pixel_type = SampleType_u8;
        p.shape.x = (uint32_t)vrng_range(&g, 1, 48); p.shape.y = (uint32_t)vrng_range(&g, 1, 32);
        trig = vrng_chance(&g, 3, 5);
        p.input_triggers.frame_start.enable = (uint8_t)trig;
        exp_us = vrng_chance(&g, 1, 4) ? (float)vrng_range(&g, 2000, 4000) : (float)vrng_range(&g, 50, 500);
        p.exposure_time_us = exp_us;
        // reconfiguration between runs, including enable -> disable -> enable while stopped
        extra_sets = (int)vrng_below(&g, 3);
        for (int e = 0; e < extra_sets; ++e) {
            struct CameraProperties q = p; q.input_triggers.frame_start.enable = (uint8_t)vrng_below(&g, 2);
            vbuf_printf(&g_log, "set(trig=%u) ", q.input_triggers.frame_start.enable);
            camera_set(cam, &q);
        }
        vbuf_printf(&g_log, "set(trig=%d,exp=%gus) start ", trig, (double)exp_us);
        if (camera_set(cam, &p) != Device_Ok) { violation("set-failed", "camera_set failed"); break; }
        }
        struct run_ctx r; memset(&r, 0, sizeof r);
        r.cam = cam; r.nbytes = (size_t)p.shape.x * p.shape.y; r.trigger_enabled = trig; r.seed = vmix(seed, icase * 16 + (uint64_t)run);
        r.exposure_ms = exp_us * 1e-3f;
        int pending_at_stop = trig && vrng_chance(&g, 1, 2);  // consumer wants more frames than triggers: blocked when stop comes
        long ntrig = trig ? (long)vrng_range(&g, 0, 12) : 0;
        r.want = trig ? (pending_at_stop ? ntrig + 1 : (ntrig ? (long)vrng_range(&g, 1, ntrig) : 0)) : (long)vrng_range(&g, 1, exp_us >= 2000 ? 25 : 120);
        if (trig && ntrig == 0 && !pending_at_stop) { pending_at_stop = 1; r.want = 1; }
        r.fail_last = !pending_at_stop && r.nbytes > 1 && r.want > 0 && vrng_chance(&g, 1, 5);
        // a free-running consumer that is still taking frames when the stop comes (its call in flight must be released)
        int endless = !trig && vrng_chance(&g, 1, 4);
        if (endless) { r.want = 1L << 30; r.fail_last = 0; }
        r.t_start = now_s();
        ++C.starts;
        if (camera_start(cam) != Device_Ok) { violation("start-failed", "camera_start failed"); break; }
        int paced = vrng_chance(&g, 2, 3);
        if (trig && !paced && !pending_at_stop) r.want = 1; // bursts coalesce: only one frame is certain
        pthread_t ct, tt; struct trig_ctx tc = { &r, ntrig, r.seed, 0, paced };
        pthread_create(&ct, 0, consumer_main, &r);
        if (trig) pthread_create(&tt, 0, trigger_main, &tc);
        if (vrng_chance(&g, 1, 5)) {
            // the same settings (another exposure time only) are applied again while the camera is live, as a client that
            // re-configures during an acquisition does: everything the property says about this run keeps holding
            struct CameraProperties q = p; q.exposure_time_us = exp_us + (float)vrng_range(&g, 1, 40);
            struct timespec ts = { 0, (long)vrng_range(&g, 0, 800000) }; nanosleep(&ts, 0);
            vbuf_printf(&g_log, "live-set(exp=%gus) ", (double)q.exposure_time_us);
            if (camera_set(cam, &q) != Device_Ok) violation("set-failed", "camera_set with unchanged shape and trigger mode failed while running");
            ++C.live_sets;
        }
        // the consumer either finishes (got what it wanted) or ends up blocked with all triggers used
        if (trig) pthread_join(tt, 0);
        int finished;
        if (pending_at_stop) {
            // wait until the consumer sits in get_frame with nothing more coming (all triggers used;
            // bursts may coalesce, so fewer frames than triggers is legal)
            double t0 = now_s(); long lastd = -1; int stable = 0;
            while (now_s() - t0 < 20 && !atomic_load(&r.consumer_done)) {
                long d = atomic_load(&r.delivered);
                if (d == lastd && atomic_load(&r.in_get_frame)) { if (++stable >= 3) break; } else stable = 0;
                lastd = d;
                if (d >= ntrig && atomic_load(&r.in_get_frame) && stable >= 1) break;
                struct timespec ts = { 0, (long)(1500000 + 1000 * (long)(exp_us)) }; nanosleep(&ts, 0);
            }
            { struct timespec ts = { 0, (long)vrng_range(&g, 10000, 1500000) }; nanosleep(&ts, 0); }
            finished = 0; ++C.pending_at_stop;
            vbuf_printf(&g_log, "(consumer pending in get_frame: delivered %ld of %ld triggers) ", (long)atomic_load(&r.delivered), ntrig);
        } else {
            if (endless) { struct timespec ts = { 0, (long)vrng_range(&g, 1000000, 10000000) }; nanosleep(&ts, 0); }
            finished = endless ? 0 : wait_flag(&r.consumer_done, trig ? 0.3 : 60);
            if (endless) ++C.pending_at_stop;
            if (!finished && !g_case_violated) {
                // with triggering, coalesced triggers can legitimately leave the consumer waiting: stop releases it
                if (!trig && !endless) violation("consumer-stalled", "free-running camera delivered %ld of %ld frames in 60 s", (long)atomic_load(&r.delivered), r.want);
            }
        }
        if (r.fail_last && finished && r.fail_last_rc) {
            ++C.failed_frame_calls;
            vbuf_printf(&g_log, "(frame call with a short buffer -> %s) ", r.fail_last_rc == 1 ? "Ok" : "Err");
            if (r.fail_last_rc == 1) violation("short-buffer-accepted", "camera_get_frame accepted a buffer smaller than the image");
            else if (camera_get_state(cam) == DeviceState_Running) violation("running-after-failed-frame-call", "HAL still reports Running after a failed frame call");
        }
        if (!finished && vrng_chance(&g, 1, endless ? 2 : 3)) {
            // the settings are applied once more right before the stop, while a frame call may be pending:
            // an image in flight is discarded by that, and the stop must release the call all the same
            struct CameraProperties q = p; q.exposure_time_us = exp_us + (float)vrng_range(&g, 1, 40);
            vbuf_printf(&g_log, "live-set-then-stop ");
            if (camera_set(cam, &q) != Device_Ok) violation("set-failed", "camera_set with unchanged shape and trigger mode failed while running");
            ++C.live_sets;
        }
        // ---- stop must return and release a pending frame call ------------------------------------
        vbuf_printf(&g_log, "stop ");
        atomic_store(&g_stop_returned, 0);
        atomic_store(&r.stop_consumer, 1);
        pthread_t st; pthread_create(&st, 0, stopper_main, cam);
        if (!wait_flag(&g_stop_returned, 30)) {
            violation("stop-hangs", "camera_stop did not return within 30 s (consumer %s)", atomic_load(&r.in_get_frame) ? "inside get_frame" : "idle");
            printf("X {\"case\":\"%s\",\"what\":\"stop hangs\"}\n", g_casedesc); fflush(stdout);
            _exit(5);
        }
        pthread_join(st, 0);
        if (!wait_flag(&r.consumer_done, 30)) {
            violation("get-frame-not-released-by-stop", "a pending camera_get_frame did not return within 30 s after camera_stop returned");
            printf("X {\"case\":\"%s\",\"what\":\"get_frame hangs\"}\n", g_casedesc); fflush(stdout);
            _exit(5);
        }
        pthread_join(ct, 0);
        ++C.runs; C.frames += (unsigned long)atomic_load(&r.delivered); C.triggers += (unsigned long)ntrig;
        if (trig) { ++C.trigger_runs; if (run > 0) ++C.restarts_checked; }
        vbuf_printf(&g_log, "[frames %ld ids %lld..%lld] | ", (long)atomic_load(&r.delivered), (long long)r.first_id, (long long)r.last_id);
        sig = vhash_add(sig, (uint64_t)trig * 4 + (uint64_t)prev_trig * 2 + (uint64_t)pending_at_stop + 8 * (uint64_t)(ntrig > 0) + 16 * (uint64_t)extra_sets);
        prev_trig = trig;
    }
    atomic_store(&g_inject, 0);
    simcam_close_camera(cam);
    ++C.cases; vset_add(&g_sigs, sig);
    if (icase % 53 == 0 && !g_case_violated) { printf("H {\"case\":\"%s\",\"oplog\":", g_casedesc); vjson_str(stdout, g_log.p); printf("}\n"); }
}

struct Driver* device_manager_get_driver(const struct DeviceManager* dm, const struct DeviceIdentifier* id) { (void)dm; (void)id; return 0; }

static void quiet(int e, const char* f, int l, const char* fn, const char* m) { (void)e; (void)f; (void)l; (void)fn; (void)m; }

int main(int argc, char** argv)
{
    if (argc < 5) { fprintf(stderr, "usage\n"); return 2; }
    logger_set_reporter(quiet);
    setvbuf(stdout, 0, _IOFBF, 1 << 16);
    vset_init(&g_sigs, 1 << 12);
    const char* mode = argv[1];
    uint64_t seed = strtoull(argv[2], 0, 10);
    unsigned long first = strtoul(argv[3], 0, 10), count = strtoul(argv[4], 0, 10);
    uint64_t maxpx = argc > 5 ? strtoull(argv[5], 0, 10) : (1u << 20);
    int is_shape = !strcmp(mode, "shape");
    g_props = is_shape ? "C17" : "C18";
    for (unsigned long c = first; c < first + count; ++c) {
        if (is_shape) run_shape_case(seed, c, maxpx); else run_stream_case(seed, c);
        if (g_nviol > 10) break;
    }
    printf("S {\"mode\":\"%s\",\"cases\":%lu,\"violations\":%lu,\"sets\":%lu,\"rejected_sets\":%lu,\"reconfigurations\":%lu,\"starts\":%lu,"
           "\"frames\":%lu,\"frame_bytes\":%lu,\"cases_with_binning\":%lu,\"clamped_requests\":%lu,\"max_shape_requests\":%lu,\"runs\":%lu,"
           "\"triggers\":%lu,\"trigger_runs\":%lu,\"stops_with_pending_get_frame\":%lu,\"restart_checks\":%lu,\"restarts_without_set\":%lu,\"live_sets\":%lu,\"live_resizes\":%lu,\"timebound_checks\":%lu,\"failed_frame_calls\":%lu,\"ids_ahead_of_pacing_info\":%lu,\"distinct\":%zu}\n",
           mode, C.cases, g_nviol, C.sets, C.rejected_sets, C.reconfigs, C.starts, C.frames, C.bytes, C.binned_cases, C.clamped, C.maxshape,
           C.runs, C.triggers, C.trigger_runs, C.pending_at_stop, C.restarts_checked, C.restarts_without_set, C.live_sets, C.live_resizes, C.timebound_checked, C.failed_frame_calls, C.ids_ahead_of_pacing, g_sigs.n);
    const char* hp = getenv("VERIF_HASH_OUT");
    if (hp) vset_dump(&g_sigs, hp);
    fflush(stdout);
    return 0;
}
