// Mock driver module of the whole-runtime harness (H2).  Built as libacquire-driver-hdcam.so.
// Scripted cameras and recording storages; everything observable goes into the exported
// control block `rtm` (see rt_mock.h).
#define _GNU_SOURCE
#include "rt_mock.h"
#include "device/kit/driver.h"
#include "device/kit/camera.h"
#include "device/kit/storage.h"
#include "device/props/components.h"

#include <stdlib.h>
#include <string.h>
#include <stdio.h>
#include <time.h>
#include <unistd.h>

struct rtm_ctl rtm = { .mu = PTHREAD_MUTEX_INITIALIZER };

static const size_t k_bpp[] = { 1, 2, 1, 2, 4, 2, 2, 2 };
static _Atomic uint32_t g_instances;

static void ev(int is_storage, unsigned dev, int op, uint32_t inst, int hal_state, int result, int64_t arg)
{
    atomic_fetch_add(&rtm.activity, 1);
    pthread_mutex_lock(&rtm.mu);
    if (rtm.nevents == rtm.capevents) {
        rtm.capevents = rtm.capevents ? 2 * rtm.capevents : 4096;
        rtm.events = (struct rtm_event*)realloc(rtm.events, rtm.capevents * sizeof *rtm.events);
    }
    rtm.events[rtm.nevents++] = (struct rtm_event){ (uint8_t)is_storage, (uint8_t)dev, (uint16_t)op, inst, hal_state, result, arg,
                                                    atomic_fetch_add(&rtm.seq, 1) };
    pthread_mutex_unlock(&rtm.mu);
}
static void nap_us(long us)
{
    if (us <= 0) return;
    struct timespec ts = { us / 1000000, (us % 1000000) * 1000 };
    nanosleep(&ts, 0);
}
static uint64_t xs(uint64_t* s) { uint64_t x = *s; x ^= x << 13; x ^= x >> 7; x ^= x << 17; return *s = x; }

// ---- camera -------------------------------------------------------------------------------------------
struct mcam {
    struct Camera camera;
    unsigned dev; uint32_t instance;
    struct CameraProperties props;
    uint32_t w, h; int type;
    pthread_mutex_t mu; pthread_cond_t cv;
    int triggered, stopping;
    long calls, frames; uint64_t epoch; uint32_t start_no; uint64_t rng;
};
#define CAM(c) ((struct mcam*)(c))

static void cam_shape_for(const struct mcam* m, long frame_index, uint32_t* w, uint32_t* h)
{
    const struct rtm_cam_cfg* cfg = &rtm.cam[m->dev].cfg;
    *w = m->w; *h = m->h;
    if (cfg->shape_change_every > 0 && ((frame_index / cfg->shape_change_every) & 1)) { *w = cfg->alt_w; *h = cfg->alt_h; }
}
static void fill_shape(struct ImageShape* s, uint32_t w, uint32_t h, int type)
{
    memset(s, 0, sizeof *s);
    s->dims.channels = 1; s->dims.width = w; s->dims.height = h; s->dims.planes = 1;
    s->strides.channels = 1; s->strides.width = 1; s->strides.height = w; s->strides.planes = (int64_t)w * h;
    s->type = (enum SampleType)type;
}
static enum DeviceStatusCode mc_set(struct Camera* c, struct CameraProperties* p)
{
    struct mcam* m = CAM(c);
    atomic_fetch_add(&rtm.cam[m->dev].sets, 1);
    if (rtm.cam[m->dev].cfg.set_fails) { ev(0, m->dev, RTM_SET, m->instance, c->state, Device_Err, 0); return Device_Err; }
    m->props = *p;
    m->w = p->shape.x ? p->shape.x : 1; m->h = p->shape.y ? p->shape.y : 1;
    if (m->w > 4096) m->w = 4096;
    if (m->h > 4096) m->h = 4096;
    m->type = p->pixel_type < SampleTypeCount ? (int)p->pixel_type : 0;
    m->props.shape.x = m->w; m->props.shape.y = m->h; m->props.pixel_type = (enum SampleType)m->type;
    ev(0, m->dev, RTM_SET, m->instance, c->state, Device_Ok, 0);
    return Device_Ok;
}
static enum DeviceStatusCode mc_get(const struct Camera* c, struct CameraProperties* p)
{
    const struct mcam* m = (const struct mcam*)c;
    *p = m->props;
    atomic_fetch_add(&rtm.activity, 1);
    return Device_Ok;
}
static enum DeviceStatusCode mc_get_meta(const struct Camera* c, struct CameraPropertyMetadata* meta)
{
    (void)c; memset(meta, 0, sizeof *meta);
    meta->digital_lines.line_count = 1; strcpy(meta->digital_lines.names[0], "software");
    meta->triggers.frame_start.input = 1;
    return Device_Ok;
}
static enum DeviceStatusCode mc_get_shape(const struct Camera* c, struct ImageShape* s)
{
    const struct mcam* m = (const struct mcam*)c;
    uint32_t w, h; cam_shape_for(m, m->frames, &w, &h);
    fill_shape(s, w, h, m->type);
    return Device_Ok;
}
static enum DeviceStatusCode mc_start(struct Camera* c)
{
    struct mcam* m = CAM(c);
    atomic_fetch_add(&rtm.cam[m->dev].starts, 1);
    if (rtm.cam[m->dev].cfg.start_fails) { ev(0, m->dev, RTM_START, m->instance, c->state, Device_Err, 0); return Device_Err; }
    pthread_mutex_lock(&m->mu);
    m->calls = 0; m->frames = 0; m->triggered = 0; m->stopping = 0;
    m->epoch = (uint64_t)atomic_fetch_add(&rtm.cam[m->dev].epoch, 1) + 1;
    pthread_mutex_unlock(&m->mu);
    atomic_store(&rtm.cam[m->dev].calls, 0); atomic_store(&rtm.cam[m->dev].frames, 0);
    ev(0, m->dev, RTM_START, m->instance, c->state, Device_Ok, (int64_t)m->epoch);
    return Device_Ok;
}
static enum DeviceStatusCode mc_stop(struct Camera* c)
{
    struct mcam* m = CAM(c);
    atomic_fetch_add(&rtm.cam[m->dev].stops, 1);
    pthread_mutex_lock(&m->mu);
    m->stopping = 1; pthread_cond_broadcast(&m->cv);
    pthread_mutex_unlock(&m->mu);
    if (rtm.cam[m->dev].cfg.stop_us > 0) { struct timespec ts = { 0, 1000L * rtm.cam[m->dev].cfg.stop_us }; nanosleep(&ts, 0); } // a camera that takes its time to stop
    ev(0, m->dev, RTM_STOP, m->instance, c->state, Device_Ok, 0);
    return Device_Ok;
}
static enum DeviceStatusCode mc_trigger(struct Camera* c)
{
    struct mcam* m = CAM(c);
    atomic_fetch_add(&rtm.cam[m->dev].triggers, 1);
    pthread_mutex_lock(&m->mu);
    m->triggered = 1; pthread_cond_broadcast(&m->cv);
    pthread_mutex_unlock(&m->mu);
    if (rtm.cam[m->dev].cfg.trigger_us > 0) { struct timespec ts = { 0, 1000L * rtm.cam[m->dev].cfg.trigger_us }; nanosleep(&ts, 0); } // a trigger command that returns late
    ev(0, m->dev, RTM_TRIGGER, m->instance, c->state, Device_Ok, 0);
    return Device_Ok;
}
static enum DeviceStatusCode mc_get_frame(struct Camera* c, void* im, size_t* nbytes, struct ImageInfo* info)
{
    struct mcam* m = CAM(c);
    struct rtm_cam* R = &rtm.cam[m->dev];
    const struct rtm_cam_cfg* cfg = &R->cfg;
    atomic_store(&R->in_get_frame, 1);
    long call = m->calls++;
    atomic_store(&R->calls, m->calls);
    if (cfg->fail_at_call >= 0 && call == cfg->fail_at_call) {
        ev(0, m->dev, RTM_GET_FRAME, m->instance, c->state, Device_Err, call);
        atomic_store(&R->in_get_frame, 0);
        return Device_Err;
    }
    long us = cfg->pace_min_us + (cfg->pace_max_us > cfg->pace_min_us ? (long)(xs(&m->rng) % (uint64_t)(cfg->pace_max_us - cfg->pace_min_us + 1)) : 0);
    if (cfg->stall_every > 0 && m->frames > 0 && m->frames % cfg->stall_every == 0) us += cfg->stall_us;
    nap_us(us);
    if (m->props.input_triggers.frame_start.enable) {
        pthread_mutex_lock(&m->mu);
        atomic_store(&R->waiting_trigger, 1);
        while (!m->triggered && !m->stopping) pthread_cond_wait(&m->cv, &m->mu);
        m->triggered = 0;
        atomic_store(&R->waiting_trigger, 0);
        pthread_mutex_unlock(&m->mu);
    }
    if (cfg->zero_every > 0 && call % cfg->zero_every == cfg->zero_every - 1) {
        *nbytes = 0;
        ev(0, m->dev, RTM_GET_FRAME, m->instance, c->state, Device_Ok, -1);
        atomic_store(&R->in_get_frame, 0);
        return Device_Ok;
    }
    uint32_t w, h; cam_shape_for(m, m->frames, &w, &h);
    size_t n = (size_t)w * h * k_bpp[m->type];
    if (*nbytes < n) { // the caller asked get_shape first; a smaller buffer is its bug, not ours to overrun
        ev(0, m->dev, RTM_GET_FRAME, m->instance, c->state, Device_Err, -2);
        atomic_store(&R->in_get_frame, 0);
        return Device_Err;
    }
    uint8_t* p = (uint8_t*)im;
    uint64_t hw = (uint64_t)m->frames;
    for (size_t i = 0; i < n; ++i) p[i] = rtm_pixel(rtm.prf_key, m->dev, m->epoch, hw, i);
    fill_shape(&info->shape, w, h, m->type);
    info->hardware_frame_id = hw;
    info->hardware_timestamp = (m->epoch << 32) | hw;
    pthread_mutex_lock(&rtm.mu);
    if (R->nlog == R->caplog) { R->caplog = R->caplog ? 2 * R->caplog : 1024; R->log = (struct rtm_frame*)realloc(R->log, R->caplog * sizeof *R->log); }
    struct rtm_frame* f = &R->log[R->nlog++];
    memset(f, 0, sizeof *f);
    f->hw_id = hw; f->w = w; f->h = h; f->type = m->type; f->epoch_hint = m->epoch; f->pixhash = rtm_hash_bytes(p, n);
    f->packet = (uint32_t)call; f->start_no = (uint32_t)m->epoch; f->npix_bytes = n; f->ts_hw = info->hardware_timestamp;
    pthread_mutex_unlock(&rtm.mu);
    ++m->frames; atomic_store(&R->frames, m->frames);
    ev(0, m->dev, RTM_GET_FRAME, m->instance, c->state, Device_Ok, (int64_t)hw);
    atomic_store(&R->in_get_frame, 0);
    return Device_Ok;
}

// ---- storage --------------------------------------------------------------------------------------------
struct msto {
    struct Storage storage;
    unsigned dev; uint32_t instance;
    long frames; uint32_t start_no; uint64_t rng; long appends;
};
#define STO(s) ((struct msto*)(s))

static enum DeviceState ms_set(struct Storage* s, const struct StorageProperties* p)
{
    (void)p;
    struct msto* m = STO(s);
    atomic_fetch_add(&rtm.sto[m->dev].sets, 1);
    enum DeviceState r = rtm.sto[m->dev].cfg.set_fails ? DeviceState_AwaitingConfiguration : DeviceState_Armed;
    ev(1, m->dev, RTM_SET, m->instance, s->state, r, 0);
    return r;
}
static void ms_get(const struct Storage* s, struct StorageProperties* p) { (void)s; memset(p, 0, sizeof *p); atomic_fetch_add(&rtm.activity, 1); }
static void ms_get_meta(const struct Storage* s, struct StoragePropertyMetadata* p) { (void)s; memset(p, 0, sizeof *p); }
static enum DeviceState ms_start(struct Storage* s)
{
    struct msto* m = STO(s);
    atomic_fetch_add(&rtm.sto[m->dev].starts, 1);
    enum DeviceState r = rtm.sto[m->dev].cfg.start_fails ? DeviceState_AwaitingConfiguration : DeviceState_Running;
    if (r == DeviceState_Running) { m->frames = 0; m->appends = 0; m->start_no = (uint32_t)atomic_load(&rtm.sto[m->dev].starts); }
    ev(1, m->dev, RTM_START, m->instance, s->state, r, 0);
    return r;
}
static enum DeviceState ms_stop(struct Storage* s)
{
    struct msto* m = STO(s);
    atomic_fetch_add(&rtm.sto[m->dev].stops, 1);
    if (rtm.sto[m->dev].cfg.stop_us > 0) { struct timespec ts = { 0, 1000L * rtm.sto[m->dev].cfg.stop_us }; nanosleep(&ts, 0); }
    ev(1, m->dev, RTM_STOP, m->instance, s->state, DeviceState_Armed, 0);
    return DeviceState_Armed;
}
static enum DeviceState ms_append(struct Storage* s, const struct VideoFrame* frames, size_t* nbytes)
{
    struct msto* m = STO(s);
    struct rtm_sto* R = &rtm.sto[m->dev];
    const struct rtm_sto_cfg* cfg = &R->cfg;
    atomic_store(&R->in_append, 1);
    atomic_fetch_add(&R->appends, 1);
    const uint8_t* beg = (const uint8_t*)frames; const uint8_t* end = beg + *nbytes; const uint8_t* cur = beg;
    long n_in_packet = 0; int fail = 0;
    long us = cfg->append_min_us + (cfg->append_max_us > cfg->append_min_us ? (long)(xs(&m->rng) % (uint64_t)(cfg->append_max_us - cfg->append_min_us + 1)) : 0);
    if (m->frames < cfg->slow_until_frame) us += cfg->slow_us;
    pthread_mutex_lock(&rtm.mu);
    while (cur < end) {
        const struct VideoFrame* f = (const struct VideoFrame*)cur;
        if (R->nlog == R->caplog) { R->caplog = R->caplog ? 2 * R->caplog : 1024; R->log = (struct rtm_frame*)realloc(R->log, R->caplog * sizeof *R->log); }
        struct rtm_frame* r = &R->log[R->nlog++];
        memset(r, 0, sizeof *r);
        r->addr = (uintptr_t)cur; r->packet = (uint32_t)m->appends; r->start_no = m->start_no;
        if (((uintptr_t)cur & 7) != 0) { r->structural_error = 1; break; } // cannot even read the header safely
        if ((size_t)(end - cur) < sizeof *f) { r->structural_error = 3; break; }
        r->frame_id = f->frame_id; r->hw_id = f->hardware_frame_id; r->w = f->shape.dims.width; r->h = f->shape.dims.height;
        r->type = (int32_t)f->shape.type; r->bytes_of_frame = f->bytes_of_frame; r->ts_hw = f->timestamps.hardware;
        size_t img = (size_t)f->shape.strides.planes * (f->shape.type < SampleTypeCount ? k_bpp[f->shape.type] : 0);
        size_t want = (sizeof *f + img + 7) & ~(size_t)7;
        if (f->bytes_of_frame != want) r->structural_error = 2;
        if (f->bytes_of_frame < sizeof *f || f->bytes_of_frame > (size_t)(end - cur)) { r->structural_error = 3; break; }
        if (sizeof *f + img <= f->bytes_of_frame) {
            r->pixhash = rtm_hash_bytes(f->data, img); r->npix_bytes = img;
            if (cfg->keep_pixels) { r->pixels = (uint8_t*)malloc(img ? img : 1); memcpy(r->pixels, f->data, img); }
        }
        if (cfg->fail_at_frame >= 0 && m->frames == cfg->fail_at_frame) fail = 1;
        ++m->frames; ++n_in_packet;
        cur += f->bytes_of_frame;
    }
    pthread_mutex_unlock(&rtm.mu);
    atomic_store(&R->frames, m->frames);
    ++m->appends;
    nap_us(us);
    enum DeviceState r = fail ? (enum DeviceState)cfg->fail_state : DeviceState_Running;
    ev(1, m->dev, RTM_APPEND, m->instance, s->state, r, n_in_packet);
    atomic_store(&R->in_append, 0);
    return r;
}
static void ms_destroy(struct Storage* s) { (void)s; }
static void ms_reserve(struct Storage* s, const struct ImageShape* sh)
{
    struct msto* m = STO(s);
    ev(1, m->dev, RTM_RESERVE, m->instance, s->state, 0, (int64_t)sh->dims.width * 100000 + sh->dims.height);
}

// ---- driver ---------------------------------------------------------------------------------------------
static uint32_t d_count(struct Driver* d) { (void)d; return 2 * RTM_NDEV; }
static enum DeviceStatusCode d_describe(const struct Driver* d, struct DeviceIdentifier* id, uint64_t i)
{
    (void)d;
    if (i >= 2 * RTM_NDEV) return Device_Err;
    memset(id, 0, sizeof *id);
    id->device_id = (uint8_t)i;
    id->kind = i < RTM_NDEV ? DeviceKind_Camera : DeviceKind_Storage;
    snprintf(id->name, sizeof id->name, "%s%u", i < RTM_NDEV ? "mock-cam-" : "mock-sto-", (unsigned)(i % RTM_NDEV));
    return Device_Ok;
}
static enum DeviceStatusCode d_open(struct Driver* d, uint64_t i, struct Device** out)
{
    (void)d;
    if (i >= 2 * RTM_NDEV) return Device_Err;
    uint32_t inst = atomic_fetch_add(&g_instances, 1) + 1;
    if (i < RTM_NDEV) {
        struct mcam* m = (struct mcam*)calloc(1, sizeof *m);
        m->dev = (unsigned)i; m->instance = inst; m->w = 8; m->h = 8; m->type = 0; m->rng = rtm.prf_key ^ (inst * 0x9E3779B97F4A7C15ULL) ^ 1;
        pthread_mutex_init(&m->mu, 0); pthread_cond_init(&m->cv, 0);
        m->camera = (struct Camera){ .state = DeviceState_AwaitingConfiguration, .set = mc_set, .get = mc_get, .get_meta = mc_get_meta,
                                     .get_shape = mc_get_shape, .start = mc_start, .stop = mc_stop, .execute_trigger = mc_trigger,
                                     .get_frame = mc_get_frame };
        m->props.shape.x = 8; m->props.shape.y = 8; m->props.binning = 1;
        atomic_fetch_add(&rtm.cam[i].opens, 1); atomic_fetch_add(&rtm.cam[i].live_instances, 1);
        *out = &m->camera.device;
        ev(0, (unsigned)i, RTM_OPEN, inst, 0, Device_Ok, 0);
    } else {
        unsigned k = (unsigned)(i - RTM_NDEV);
        struct msto* m = (struct msto*)calloc(1, sizeof *m);
        m->dev = k; m->instance = inst; m->rng = rtm.prf_key ^ (inst * 0xC2B2AE3D27D4EB4FULL) ^ 1;
        m->storage = (struct Storage){ .state = DeviceState_AwaitingConfiguration, .set = ms_set, .get = ms_get, .get_meta = ms_get_meta,
                                       .start = ms_start, .append = ms_append, .stop = ms_stop, .destroy = ms_destroy,
                                       .reserve_image_shape = ms_reserve };
        atomic_fetch_add(&rtm.sto[k].opens, 1); atomic_fetch_add(&rtm.sto[k].live_instances, 1);
        *out = &m->storage.device;
        ev(1, k, RTM_OPEN, inst, 0, Device_Ok, 0);
    }
    return Device_Ok;
}
static enum DeviceStatusCode d_close(struct Driver* d, struct Device* dev)
{
    (void)d;
    if (!dev) return Device_Err;
    unsigned i = dev->identifier.device_id;
    if (i < RTM_NDEV) {
        struct mcam* m = (struct mcam*)dev; // Device is the first member of Camera
        atomic_fetch_add(&rtm.cam[i].closes, 1); atomic_fetch_sub(&rtm.cam[i].live_instances, 1);
        ev(0, i, RTM_CLOSE, m->instance, m->camera.state, Device_Ok, 0);
        free(m); // a later touch is an ASan report
    } else if (i < 2 * RTM_NDEV) {
        struct msto* m = (struct msto*)dev;
        unsigned k = i - RTM_NDEV;
        atomic_fetch_add(&rtm.sto[k].closes, 1); atomic_fetch_sub(&rtm.sto[k].live_instances, 1);
        ev(1, k, RTM_CLOSE, m->instance, m->storage.state, Device_Ok, 0);
        free(m);
    } else
        return Device_Err;
    return Device_Ok;
}
static enum DeviceStatusCode d_shutdown(struct Driver* d)
{
    atomic_fetch_add(&rtm.shutdowns, 1);
    free(d);
    return Device_Ok;
}

struct Driver* acquire_driver_init_v0(void (*reporter)(int, const char*, int, const char*, const char*))
{
    (void)reporter;
    struct Driver* d = (struct Driver*)malloc(sizeof *d);
    *d = (struct Driver){ d_count, d_describe, d_open, d_close, d_shutdown };
    return d;
}
