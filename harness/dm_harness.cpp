// H4 -- device manager / loader harness (C12).  See DESIGN.md section 4/H4.
//   dm_harness <command-file>
// Runs from a scratch directory that holds a copy of this executable plus a chosen subset of
// driver libraries (the loader resolves libraries relative to the executable).
#include "device/hal/device.manager.h"
#include "device/hal/camera.h"
#include "device/hal/storage.h"
#include "device/kit/camera.h"
#include "device/kit/storage.h"
#include "logger.h"

#include <cstdio>
#include <cstdlib>
#include <cstring>
#include <string>
#include <vector>

static void quiet(int, const char*, int, const char*, const char*) {}

static void hex(const char* s, size_t n) { for (size_t i = 0; i < n; ++i) printf("%02x", (unsigned char)s[i]); }
static void print_id(const struct DeviceIdentifier* id)
{
    printf("\"driver_id\":%u,\"device_id\":%u,\"kind\":%d,\"name_hex\":\"", id->driver_id, id->device_id, (int)id->kind);
    hex(id->name, strnlen(id->name, sizeof id->name));
    printf("\"");
}
static std::vector<char> unhex(const char* h)
{
    std::vector<char> out; size_t n = strlen(h);
    for (size_t i = 0; i + 1 < n; i += 2) { unsigned v; sscanf(h + i, "%2x", &v); out.push_back((char)v); }
    return out;
}

int main(int argc, char** argv)
{
    if (argc < 2) return 2;
    FILE* f = fopen(argv[1], "r");
    if (!f) return 2;
    logger_set_reporter(quiet);
    struct DeviceManager dm = { 0 };
    enum DeviceStatusCode st = device_manager_init(&dm, quiet);
    printf("I {\"status\":%d,\"count\":%u}\n", (int)st, st == Device_Ok ? device_manager_count(&dm) : 0u);
    fflush(stdout);
    static char line[16384];
    long n = 0;
    while (fgets(line, sizeof line, f)) {
        ++n;
        char op = line[0];
        printf("P %ld\n", n); fflush(stdout);
        if (op == 'S') {
            int kind; static char hx[2048]; hx[0] = 0;
            sscanf(line + 1, "%d %2047s", &kind, hx);
            if (!strcmp(hx, "-")) hx[0] = 0;
            std::vector<char> bytes = unhex(hx);
            // exact-size heap copy: reading past the given length is an ASan report
            char* p = bytes.empty() ? (char*)malloc(1) : (char*)malloc(bytes.size());
            if (!bytes.empty()) memcpy(p, bytes.data(), bytes.size());
            struct DeviceIdentifier id; memset(&id, 0x5a, sizeof id);
            enum DeviceStatusCode rc = device_manager_select(&dm, (enum DeviceKind)kind, p, bytes.size(), &id);
            free(p);
            printf("R {\"n\":%ld,\"status\":%d", n, (int)rc);
            if (rc == Device_Ok) { printf(","); print_id(&id); }
            printf("}\n");
        } else if (op == 'N') {
            int kind; unsigned long len; sscanf(line + 1, "%d %lu", &kind, &len);
            struct DeviceIdentifier id; memset(&id, 0x5a, sizeof id);
            enum DeviceStatusCode rc = device_manager_select(&dm, (enum DeviceKind)kind, 0, len, &id);
            printf("R {\"n\":%ld,\"status\":%d", n, (int)rc);
            if (rc == Device_Ok) { printf(","); print_id(&id); }
            printf("}\n");
        } else if (op == 'F' || op == 'D') {
            int kind; sscanf(line + 1, "%d", &kind);
            struct DeviceIdentifier id; memset(&id, 0x5a, sizeof id);
            enum DeviceStatusCode rc = op == 'F' ? device_manager_select_first(&dm, (enum DeviceKind)kind, &id)
                                                 : device_manager_select_default(&dm, (enum DeviceKind)kind, &id);
            printf("R {\"n\":%ld,\"status\":%d", n, (int)rc);
            if (rc == Device_Ok) { printf(","); print_id(&id); }
            printf("}\n");
        } else if (op == 'G') {
            unsigned long idx; sscanf(line + 1, "%lu", &idx);
            struct DeviceIdentifier id; memset(&id, 0x5a, sizeof id);
            enum DeviceStatusCode rc = device_manager_get(&id, &dm, (uint32_t)idx);
            printf("G {\"n\":%ld,\"i\":%lu,\"status\":%d", n, idx, (int)rc);
            if (rc == Device_Ok) { printf(","); print_id(&id); }
            printf("}\n");
        } else if (op == 'O') {
            unsigned long idx; sscanf(line + 1, "%lu", &idx);
            struct DeviceIdentifier id;
            if (device_manager_get(&id, &dm, (uint32_t)idx) != Device_Ok) { printf("O {\"n\":%ld,\"i\":%lu,\"opened\":-1}\n", n, idx); continue; }
            if (id.kind == DeviceKind_Camera) {
                struct Camera* c = camera_open(&dm, &id);
                printf("O {\"n\":%ld,\"i\":%lu,\"opened\":%d", n, idx, c ? 1 : 0);
                if (c) { printf(","); print_id(&c->device.identifier); camera_close(c); }
                printf("}\n");
            } else if (id.kind == DeviceKind_Storage) {
                struct Storage* s = storage_open(&dm, &id);
                printf("O {\"n\":%ld,\"i\":%lu,\"opened\":%d", n, idx, s ? 1 : 0);
                if (s) { printf(","); print_id(&s->device.identifier); storage_close(s); }
                printf("}\n");
            } else
                printf("O {\"n\":%ld,\"i\":%lu,\"opened\":-2}\n", n, idx);
        } else if (op == 'C') {
            printf("C {\"n\":%ld,\"count\":%u}\n", n, device_manager_count(&dm));
        }
        fflush(stdout);
    }
    fclose(f);
    st = device_manager_destroy(&dm);
    printf("Z {\"status\":%d,\"commands\":%ld}\n", (int)st, n);
    fflush(stdout);
    return 0;
}
