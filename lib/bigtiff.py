"""Independent BigTIFF reader used as the C15 oracle.

Written from the BigTIFF layout (https://www.awaresystems.be/imaging/tiff/bigtiff.html);
shares no code with acquire-driver-common's tiff.cpp.

    check_expectation(expect_json_path) -> list of (key, message) violations
"""
import json
import os
import struct

TYPE_SIZE = {1: 1, 2: 1, 3: 2, 4: 4, 5: 8, 6: 1, 7: 1, 8: 2, 9: 4, 10: 8, 11: 4, 12: 8, 16: 8, 17: 8, 18: 8}


class TiffError(Exception):
    def __init__(self, key, msg):
        Exception.__init__(self, msg)
        self.key = key


def _scalar(typ, raw):
    if typ == 3:
        return struct.unpack_from("<H", raw)[0]
    if typ == 4:
        return struct.unpack_from("<I", raw)[0]
    if typ in (16, 18):
        return struct.unpack_from("<Q", raw)[0]
    if typ == 1:
        return raw[0]
    raise TiffError("tiff-unexpected-tag-type", "unexpected scalar type %d" % typ)


def parse(data):
    """Returns (ifds, ranges). ifds: list of dict tag->(type,count,value bytes or (offset,len))."""
    size = len(data)
    if size < 16:
        raise TiffError("tiff-header", "file of %d bytes has no BigTIFF header" % size)
    bo, ver, osz, zero, first = _unp("<2sHHHQ", data, 0)
    if bo != b"II" or ver != 43 or osz != 8 or zero != 0:
        raise TiffError("tiff-header", "bad header %r ver=%d offsetsize=%d zero=%d" % (bo, ver, osz, zero))
    ranges = [(0, 16, "header")]
    ifds = []
    off = first
    seen = set()
    while off != 0:
        if off in seen:
            raise TiffError("tiff-chain-loop", "IFD chain loops at offset %d" % off)
        seen.add(off)
        if off + 8 > size:
            raise TiffError("tiff-link-outside-file", "IFD %d at offset %d is outside the %d-byte file "
                            "(chain not terminated)" % (len(ifds), off, size))
        (ntags,) = _unp("<Q", data, off)
        if ntags > 4096:
            raise TiffError("tiff-ifd-garbage", "IFD %d at %d claims %d tags" % (len(ifds), off, ntags))
        end = off + 8 + 20 * ntags + 8
        if end > size:
            raise TiffError("tiff-ifd-outside-file", "IFD %d [%d,%d) exceeds file size %d" % (len(ifds), off, end, size))
        ranges.append((off, end, "ifd%d" % len(ifds)))
        tags = {}
        for t in range(ntags):
            tag, typ, count = _unp("<HHQ", data, off + 8 + 20 * t)
            raw = data[off + 8 + 20 * t + 12: off + 8 + 20 * t + 20]
            tsz = TYPE_SIZE.get(typ)
            if tsz is None:
                raise TiffError("tiff-unknown-type", "IFD %d tag %d has unknown type %d" % (len(ifds), tag, typ))
            nbytes = tsz * count
            if nbytes > 8:
                (voff,) = struct.unpack("<Q", raw)
                if voff + nbytes > size:
                    raise TiffError("tiff-value-outside-file", "IFD %d tag %d value [%d,%d) outside the file (%d)"
                                    % (len(ifds), tag, voff, voff + nbytes, size))
                ranges.append((voff, voff + nbytes, "ifd%d.tag%d" % (len(ifds), tag)))
                val = data[voff:voff + nbytes]
            else:
                val = raw[:nbytes]
            if tag in tags and tag not in (282, 283):
                raise TiffError("tiff-duplicate-tag", "IFD %d has tag %d twice" % (len(ifds), tag))
            tags.setdefault(tag, (typ, count, val))
        (nxt,) = _unp("<Q", data, end - 8)
        ifds.append(tags)
        off = nxt
        if len(ifds) > 100000:
            raise TiffError("tiff-chain-loop", "more than 100000 IFDs")
    return ifds, ranges


def _unp(fmt, data, off):
    return struct.unpack(fmt, data[off:off + struct.calcsize(fmt)])


class SparseFile:
    """Random access to a multi-GiB, mostly-hole file without reading the holes."""

    def __init__(self, path):
        self.fd = os.open(path, os.O_RDONLY)
        self.size = os.fstat(self.fd).st_size

    def __len__(self):
        return self.size

    def __getitem__(self, sl):
        start, stop, _ = sl.indices(self.size)
        out = b""
        while len(out) < stop - start:
            chunk = os.pread(self.fd, stop - start - len(out), start + len(out))
            if not chunk:
                break
            out += chunk
        return out

    def extents(self, off, n):
        """data extents (absolute [a,b)) intersecting [off, off+n); everything else reads as zeros"""
        out, pos, end = [], off, min(off + n, self.size)
        while pos < end:
            try:
                a = os.lseek(self.fd, pos, os.SEEK_DATA)
            except OSError:
                break  # ENXIO: only a hole up to the end
            if a >= end:
                break
            b = min(os.lseek(self.fd, a, os.SEEK_HOLE), end)
            out.append((a, b))
            pos = b
        return out

    def close(self):
        os.close(self.fd)


def _load(path):
    """bytes for ordinary files, SparseFile for the multi-GiB (sparse) ones"""
    if os.path.getsize(path) > (64 << 20):
        return SparseFile(path)
    with open(path, "rb") as f:
        return f.read()


def _same(a, aoff, b, boff, n, chunk=8 << 20):
    if aoff + n > len(a) or boff + n > len(b):
        return False
    if isinstance(a, SparseFile) and isinstance(b, SparseFile):
        # compare wherever either file holds data; where both have holes both read as zeros
        rel = [(max(x, aoff) - aoff, y - aoff) for x, y in a.extents(aoff, n)] + \
              [(max(x, boff) - boff, y - boff) for x, y in b.extents(boff, n)]
    else:
        rel = [(0, n)]
    for x, y in rel:
        done = x
        while done < y:
            k = min(chunk, y - done)
            if a[aoff + done:aoff + done + k] != b[boff + done:boff + done + k]:
                return False
            done += k
    return True


def check_expectation(path):
    exp = json.load(open(path))
    out = []
    frames = exp["frames"]
    try:
        data = _load(exp["tif"])
    except OSError as e:
        return [("tiff-file-missing", "cannot read %s: %s" % (exp["tif"], e))], exp
    pixels = _load(exp["pixels"])
    try:
        ifds, ranges = parse(data)
    except TiffError as e:
        return [(e.key, str(e))], exp
    if len(ifds) != len(frames):
        out.append(("tiff-frame-count", "%d directories for %d appended frames" % (len(ifds), len(frames))))
    ppos = 0
    for i, (tags, f) in enumerate(zip(ifds, frames)):
        def need(tag, name):
            if tag not in tags:
                raise TiffError("tiff-missing-tag", "IFD %d lacks %s (%d)" % (i, name, tag))
            return tags[tag]
        try:
            w = _scalar(*need(256, "ImageWidth")[::2])
            h = _scalar(*need(257, "ImageLength")[::2])
            bits = _scalar(*need(258, "BitsPerSample")[::2])
            fmt = _scalar(*need(339, "SampleFormat")[::2])
            soff = _scalar(*need(273, "StripOffsets")[::2])
            scount = _scalar(*need(279, "StripByteCounts")[::2])
            if (w, h, bits, fmt) != (f["w"], f["h"], f["bits"], f["fmt"]):
                out.append(("tiff-shape-mismatch", "IFD %d says %dx%d %d bit fmt %d, frame was %dx%d %d bit fmt %d"
                            % (i, w, h, bits, fmt, f["w"], f["h"], f["bits"], f["fmt"])))
            if soff + scount > len(data):
                out.append(("tiff-strip-outside-file", "IFD %d strip [%d,%d) outside the %d-byte file" % (i, soff, soff + scount, len(data))))
            else:
                ranges.append((soff, soff + scount, "strip%d" % i))
                if scount < f["img"]:
                    out.append(("tiff-strip-too-short", "IFD %d strip has %d bytes, image has %d" % (i, scount, f["img"])))
                elif not _same(data, soff, pixels, ppos, f["img"]):
                    out.append(("tiff-pixels-mismatch", "IFD %d strip differs from the appended pixels" % i))
            typ, count, val = need(270, "ImageDescription")
            if typ != 2:
                out.append(("tiff-description", "IFD %d description has type %d" % (i, typ)))
            text = val.rstrip(b"\0").decode("utf-8", "replace")
            try:
                d = json.loads(text)
            except ValueError as e:
                raise TiffError("tiff-description-not-json", "IFD %d description is not JSON (%s): %r" % (i, e, text[:120]))
            ts = d.get("timestamps") or {}
            if (d.get("frame_id"), d.get("hardware_frame_id"), ts.get("runtime"), ts.get("hardware")) != \
                    (f["frame_id"], f["hw"], f["ts_acq"], f["ts_hw"]):
                out.append(("tiff-description-ids", "IFD %d description %r does not carry ids/timestamps of frame %d %r"
                            % (i, {k: d.get(k) for k in ("frame_id", "hardware_frame_id", "timestamps")}, i,
                               (f["frame_id"], f["hw"], f["ts_acq"], f["ts_hw"]))))
            if exp["kind"] == "tiff" and i == 0:
                meta = exp["metadata"]
                if meta:
                    if "metadata" not in d or d["metadata"] != json.loads(meta):
                        out.append(("tiff-user-metadata", "first frame's description lacks the user's metadata %r (has %r)"
                                    % (meta[:80], str(d.get("metadata"))[:80])))
                elif "metadata" in d:
                    out.append(("tiff-stale-user-metadata", "no metadata was configured for this acquisition but the first "
                                "frame carries %r" % (str(d["metadata"])[:80],)))
        except TiffError as e:
            out.append((e.key, str(e)))
        ppos += f["img"]
    # all structures pairwise disjoint
    rs = sorted(ranges)
    for (a0, a1, an), (b0, b1, bn) in zip(rs, rs[1:]):
        if b0 < a1 and a0 < a1 and b0 < b1:
            out.append(("tiff-structures-overlap", "%s [%d,%d) overlaps %s [%d,%d)" % (an, a0, a1, bn, b0, b1)))
            break
    if exp["kind"] == "tiff-json":
        try:
            got = open(exp["metadata_json_path"], "rb").read().decode("utf-8", "replace")
        except OSError:
            got = None
        want = exp["metadata"] or ""
        if got is None:
            if want:
                out.append(("tiff-json-metadata-missing", "metadata.json missing, user metadata %r" % want[:80]))
        elif got != want:
            out.append(("tiff-json-metadata-mismatch", "metadata.json holds %r, user metadata is %r" % (got[:80], want[:80])))
    for f in (data, pixels):
        if isinstance(f, SparseFile):
            f.close()
    return out, exp


def cleanup(exp):
    for p in (exp["tif"], exp["pixels"], exp.get("metadata_json_path") or ""):
        if p:
            try:
                os.unlink(p)
            except OSError:
                pass
    if exp["kind"] == "tiff-json":
        try:
            os.rmdir(os.path.dirname(exp["tif"]))
        except OSError:
            pass
