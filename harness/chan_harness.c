// H1 -- channel harness (C01, C02, C03).  See DESIGN.md section 4/H1.
//
//   chan_harness modeA  <seed> <first_case> <n_cases> [-v]     controlled interleavings
//   chan_harness window <seed> <first_case> <n_cases> [-v]     check-then-sleep window
//   chan_harness stress <seed> <first_case> <n_cases> <ops>    free-running threads
//
// Output (stdout), one record per line:
//   V {json}   a violation (prop, key, case, witness)
//   H {json}   a sample history
//   S {json}   the summary of this process (counters, coverage)
// Exit code: 0 = ran to completion (violations are reported by V lines), 3 = watchdog.
#define _GNU_SOURCE
#include "runtime/channel.h"
#include "vcommon.h"

#include <pthread.h>
#include <stddef.h>
#include <sched.h>
#include <stdatomic.h>
#include <time.h>
#include <unistd.h>

// ----- interposed platform calls (linked with -Wl,--wrap=...) ---------------------------
void __real_condition_variable_wait(struct condition_variable*, struct lock*);
void __real_lock_acquire(struct lock*);
void __real_condition_variable_notify_all(struct condition_variable*);

static struct channel g_ch;
static __thread int t_role; // 0 controller, 1 writer, 2 racer/reader threads
enum { ROLE_CTRL = 0, ROLE_WRITER = 1, ROLE_RACER = 2 };

static _Atomic unsigned long g_wait_entries, g_wakeups, g_notifies;
static _Atomic int g_window_armed, g_in_window, g_window_go;
static _Atomic int g_racer_on_lock;
static _Atomic int g_probe_mode; // set while the harness itself issues a probe notify

static void spin_pause(unsigned* k)
{
    if (++*k < 64) return;
    if (*k < 4096) { sched_yield(); return; }
    struct timespec ts = { 0, 50000 };
    nanosleep(&ts, 0);
}

// The controller thread itself only issues writes smaller than the capacity while every reader is
// drained (window-mode prefix): such a write never needs to sleep (C03: "resumes once every
// registered reader has drained"; nobody else would ever wake it).
static int g_ctrl_write_fits;
static size_t g_ctrl_write_n;
static void ctrl_would_sleep(void);

void __wrap_condition_variable_wait(struct condition_variable* cv, struct lock* lk)
{
    if (t_role == ROLE_WRITER && cv == &g_ch.notify_space_available) {
        atomic_fetch_add(&g_wait_entries, 1);
        if (atomic_load(&g_window_armed)) {
            // park between "predicate evaluated" and "asleep", channel lock held
            atomic_store(&g_window_armed, 0);
            atomic_store(&g_in_window, 1);
            unsigned k = 0;
            while (!atomic_load(&g_window_go)) spin_pause(&k);
            atomic_store(&g_in_window, 0);
        }
        __real_condition_variable_wait(cv, lk);
        atomic_fetch_add(&g_wakeups, 1);
        return;
    }
    if (t_role == ROLE_CTRL && g_ctrl_write_fits && cv == &g_ch.notify_space_available)
        ctrl_would_sleep(); // does not return
    __real_condition_variable_wait(cv, lk);
}

void __wrap_lock_acquire(struct lock* lk)
{
    if (t_role == ROLE_RACER && lk == &g_ch.lock) {
        atomic_store(&g_racer_on_lock, 1);
        __real_lock_acquire(lk);
        atomic_store(&g_racer_on_lock, 0);
        return;
    }
    __real_lock_acquire(lk);
}

void __wrap_condition_variable_notify_all(struct condition_variable* cv)
{
    if (cv == &g_ch.notify_space_available && !atomic_load(&g_probe_mode))
        atomic_fetch_add(&g_notifies, 1);
    __real_condition_variable_notify_all(cv);
}

// ----- stream content -------------------------------------------------------------------
static uint64_t g_prf_key;
static inline uint8_t prf(uint64_t i)
{
    uint64_t x = (i + g_prf_key) * 0x9E3779B97F4A7C15ULL;
    x ^= x >> 29; x *= 0xBF58476D1CE4E5B9ULL; x ^= x >> 32;
    return (uint8_t)x;
}

// ----- reporting ------------------------------------------------------------------------
static vbuf g_log;      // op log of the current case
static int g_verbose;
static const char* g_mode = "?";
static uint64_t g_seed;
static unsigned long g_case;
static unsigned long g_nviol, g_nviol_other;
static const char* g_own_prop; // VERIF_PROP: the property this run decides (caps count its violations only)
static int g_case_violated;

static void violation(const char* props, const char* key, const char* fmt, ...)
{
    char msg[512];
    va_list ap;
    va_start(ap, fmt);
    vsnprintf(msg, sizeof msg, fmt, ap);
    va_end(ap);
    g_case_violated = 1; // the model may have lost step with the channel: the case ends here in any case
    if (g_own_prop && !strstr(props, g_own_prop)) {
        // belongs to another property's check: reported (bounded) but not counted towards this worker's cap
        if (++g_nviol_other > 60) return;
    } else ++g_nviol;
    printf("V {\"props\":\"%s\",\"key\":\"%s\",\"mode\":\"%s\",\"seed\":%llu,\"case\":%lu,\"msg\":",
           props, key, g_mode, (unsigned long long)g_seed, g_case);
    vjson_str(stdout, msg);
    printf(",\"oplog\":");
    vjson_str(stdout, g_log.p ? g_log.p : "");
    printf("}\n");
    fflush(stdout);
}

static void ctrl_would_sleep(void)
{
    violation("C03", "sleeps-while-drained", "write_map(%zu) on the controlling thread goes to sleep although every reader is drained", g_ctrl_write_n);
    _exit(4); // the channel lock is held and nobody will ever notify: the V record is the result
}

// ----- reference model ------------------------------------------------------------------
struct seg { uint64_t start; size_t len; size_t addr; }; // committed write
static struct seg* g_segs; static size_t g_nsegs, g_capsegs;
static uint64_t g_S;          // committed bytes so far
static int g_accepting;

struct mreader {
    struct channel_reader r;
    int joined, mapped;
    uint64_t off;       // stream offset of next unconsumed byte
    size_t len;         // length of mapped slice
    uint8_t* beg;       // mapped slice
    uint8_t* snap;      // snapshot of the mapped slice
    size_t snapcap;
    int lapskew;        // coverage only
};
#define MAXR 8
static struct mreader g_rd[MAXR];
static int g_nrd;

static struct { int mapped; uint8_t* p; size_t n; } g_w; // writer's outstanding region

static void model_reset(void)
{
    g_nsegs = 0; g_S = 0; g_accepting = 1; g_nrd = 0; g_w.mapped = 0;
    for (int i = 0; i < MAXR; ++i) {
        free(g_rd[i].snap);
        memset(&g_rd[i], 0, sizeof g_rd[i]);
    }
}
static void seg_push(uint64_t start, size_t len, size_t addr)
{
    if (g_nsegs == g_capsegs) {
        g_capsegs = g_capsegs ? 2 * g_capsegs : 256;
        g_segs = (struct seg*)realloc(g_segs, g_capsegs * sizeof *g_segs);
    }
    g_segs[g_nsegs++] = (struct seg){ start, len, addr };
}
// index of segment containing stream offset o (o < g_S)
static size_t seg_find(uint64_t o)
{
    size_t lo = 0, hi = g_nsegs;
    while (hi - lo > 1) {
        size_t mid = (lo + hi) / 2;
        if (g_segs[mid].start <= o) lo = mid; else hi = mid;
    }
    return lo;
}
// buffer address (offset in ring) of stream byte o
static size_t addr_of(uint64_t o)
{
    const struct seg* s = &g_segs[seg_find(o)];
    return s->addr + (size_t)(o - s->start);
}
static uint64_t min_reader_off(int* any)
{
    uint64_t m = UINT64_MAX; *any = 0;
    for (int i = 0; i < g_nrd; ++i)
        if (g_rd[i].joined) { *any = 1; if (g_rd[i].off < m) m = g_rd[i].off; }
    return m;
}
static int all_drained(void)
{
    for (int i = 0; i < g_nrd; ++i)
        if (g_rd[i].joined && (g_rd[i].off != g_S)) return 0;
    return 1;
}

// ----- coverage -------------------------------------------------------------------------
static struct {
    unsigned long cases, steps, commits, aborts, null_maps, sleeps, wraps_lag, wraps_reset,
      reads, empty_reads, lapcross_reads, partial_unmaps, over_unmaps, joins_late, toggles,
      refused_commits, zero_writes, nontrivial, window_cases, window_racer_blocked,
      window_racer_completed_early, resumed_after_release, resumed_null_after_refuse,
      stress_runs, stress_bytes, stress_reads, stress_empty, stress_sleeps, exact_full, drained_checks;
} C;
static vset g_states, g_hist;
static int g_case_wraps, g_case_skew;

static void cover_state(int wstate)
{
    // abstract state: readers, writer state, slowest reader lap relation, ring fill, skew
    int any; uint64_t mn = min_reader_off(&any);
    int fill = 0; // 0 empty 1 partial 2 full(ish)
    if (any) {
        uint64_t pend = g_S - mn;
        fill = pend == 0 ? 0 : (pend + 1 >= g_ch.capacity ? 2 : 1);
    }
    int prevlap = 0, athigh = 0, njoined = 0, nmapped = 0;
    for (int i = 0; i < g_nrd; ++i) {
        if (!g_rd[i].joined) continue;
        ++njoined;
        nmapped += g_rd[i].mapped;
        size_t id = g_rd[i].r.id;
        if (id) {
            if (g_ch.holds.cycles[id - 1] != g_ch.cycle) prevlap = 1;
            if (g_ch.holds.pos[id - 1] == g_ch.high && g_ch.holds.cycles[id - 1] != g_ch.cycle) athigh = 1;
        }
    }
    uint64_t sig = (uint64_t)njoined | ((uint64_t)wstate << 4) | ((uint64_t)fill << 6) |
                   ((uint64_t)prevlap << 8) | ((uint64_t)athigh << 9) |
                   ((uint64_t)(nmapped > 2 ? 2 : nmapped) << 10) | ((uint64_t)(g_accepting ? 1 : 0) << 12) |
                   ((uint64_t)(g_ch.head == 0) << 13) | ((uint64_t)(g_ch.head == g_ch.capacity) << 14);
    vset_add(&g_states, sig + 1);
    if (prevlap && njoined >= 2) g_case_skew = 1;
}

// ----- writer thread ----------------------------------------------------------------------
static _Atomic int w_cmd;       // 0 idle, 1 map, 9 exit
static size_t w_arg;
static void* w_res;
static _Atomic unsigned long w_done; // number of completed commands
static pthread_t w_thread;

static void* writer_main(void* _)
{
    (void)_;
    t_role = ROLE_WRITER;
    unsigned k = 0;
    for (;;) {
        int c = atomic_load(&w_cmd);
        if (!c) { spin_pause(&k); continue; }
        k = 0;
        if (c == 9) return 0;
        void* p = channel_write_map(&g_ch, w_arg);
        w_res = p;
        atomic_store(&w_cmd, 0);
        atomic_fetch_add(&w_done, 1);
    }
}

static double now_s(void)
{
    struct timespec t; clock_gettime(CLOCK_MONOTONIC, &t);
    return t.tv_sec + 1e-9 * t.tv_nsec;
}

static void watchdog_fail(const char* what)
{
    printf("X {\"mode\":\"%s\",\"seed\":%llu,\"case\":%lu,\"what\":\"%s\"}\n", g_mode,
           (unsigned long long)g_seed, g_case, what);
    fflush(stdout);
    _exit(3);
}

// The writer is "settled" when its command completed, or it is inside the real wait.
// Returns 1 if done, 0 if asleep.
static int writer_settle(unsigned long done_before, unsigned long entries_seen)
{
    unsigned k = 0; double t0 = now_s();
    for (;;) {
        if (atomic_load(&w_done) > done_before) return 1;
        unsigned long e = atomic_load(&g_wait_entries), w = atomic_load(&g_wakeups);
        if (e > entries_seen && e > w && !atomic_load(&g_in_window)) {
            // flag says "entering wait"; the lock probe proves the mutex was released,
            // i.e. the writer is inside pthread_cond_wait.
            __real_lock_acquire(&g_ch.lock);
            lock_release(&g_ch.lock);
            if (atomic_load(&w_done) > done_before) return 1;
            if (atomic_load(&g_wait_entries) == e && atomic_load(&g_wakeups) == w) return 0;
            continue;
        }
        spin_pause(&k);
        if ((k & 1023) == 0 && now_s() - t0 > 60) watchdog_fail("writer_settle");
    }
}

// ----- oracle steps -----------------------------------------------------------------------
static void check_write_region(uint8_t* p, size_t n)
{
    uint8_t* const lo = g_ch.data; uint8_t* const hi = g_ch.data + g_ch.capacity;
    if (p < lo || p + n > hi) {
        violation("C02", "write-region-outside-buffer", "write_map(%zu) -> [%td,%td) cap %zu", n,
                  p - lo, p - lo + (ptrdiff_t)n, g_ch.capacity);
        return;
    }
    size_t a = (size_t)(p - lo), b = a + n;
    if (!n) return;
    for (int i = 0; i < g_nrd; ++i) {
        struct mreader* r = &g_rd[i];
        if (r->joined && r->mapped && r->len) {
            size_t ra = (size_t)(r->beg - lo), rb = ra + r->len;
            if (a < rb && ra < b)
                violation("C02", "write-region-overlaps-mapped-slice",
                          "write [%zu,%zu) overlaps reader %d slice [%zu,%zu)", a, b, i, ra, rb);
        }
    }
    int any; uint64_t mn = min_reader_off(&any);
    if (any && mn < g_S) {
        for (size_t s = seg_find(mn); s < g_nsegs; ++s) {
            uint64_t st = g_segs[s].start < mn ? mn : g_segs[s].start;
            size_t sa = g_segs[s].addr + (size_t)(st - g_segs[s].start);
            size_t sb = g_segs[s].addr + g_segs[s].len;
            if (sa < sb && a < sb && sa < b) {
                violation("C02", "write-region-overlaps-unconsumed",
                          "write [%zu,%zu) overlaps unconsumed stream bytes [%llu,..) at [%zu,%zu)", a, b,
                          (unsigned long long)st, sa, sb);
                break;
            }
        }
    }
}

static void do_write_filled(uint8_t* p, size_t n)
{
    for (size_t j = 0; j < n; ++j) p[j] = prf(g_S + j);
}

// Controller-side bookkeeping once write_map returned p for n bytes.
static void on_write_mapped(void* p, size_t n)
{
    if (!p) {
        ++C.null_maps;
        int anyr = 0; for (int i = 0; i < g_nrd; ++i) anyr |= g_rd[i].joined;
        if (g_accepting)
            violation("C03", "write-map-null-while-accepting", "write_map(%zu) returned NULL while accepting", n);
        (void)anyr;
        return;
    }
    vbuf_printf(&g_log, "->%td ", (uint8_t*)p - g_ch.data);
    int before = g_case_violated;
    check_write_region((uint8_t*)p, n);
    if (g_case_violated && !before) {
        // do not write into a bad region; abandon it
        channel_abort_write(&g_ch);
        return;
    }
    do_write_filled((uint8_t*)p, n);
    g_w.mapped = 1; g_w.p = (uint8_t*)p; g_w.n = n;
}

static void step_write_commit(int abort_it)
{
    size_t before_cycle = g_ch.cycle;
    (void)before_cycle;
    if (abort_it) {
        vbuf_printf(&g_log, "WA ");
        channel_abort_write(&g_ch);
        ++C.aborts;
    } else {
        vbuf_printf(&g_log, "WU ");
        channel_write_unmap(&g_ch);
        if (g_accepting) {
            if (g_w.n) seg_push(g_S, g_w.n, (size_t)(g_w.p - g_ch.data));
            else ++C.zero_writes;
            g_S += g_w.n;
            ++C.commits;
        } else
            ++C.refused_commits;
    }
    g_w.mapped = 0;
}

static void reader_check_slice(int i, struct slice s, uint64_t S_at_call)
{
    struct mreader* r = &g_rd[i];
    size_t len = (size_t)(s.end - s.beg);
    ++C.reads;
    if (r->r.status != Channel_Ok) {
        violation("C01,C06", "reader-status-error", "reader %d status=%d after read_map", i, (int)r->r.status);
        r->r.status = Channel_Ok;
    }
    if (s.end < s.beg) { violation("C01,C02", "slice-negative", "reader %d end<beg", i); return; }
    if (len == 0) {
        ++C.empty_reads;
        if (!r->joined) { r->joined = 1; r->off = g_S; }
        else if (r->off != g_S)
            violation("C01", "empty-but-not-drained",
                      "reader %d got an empty slice with %llu committed bytes unread (off=%llu S=%llu)", i,
                      (unsigned long long)(g_S - r->off), (unsigned long long)r->off, (unsigned long long)g_S);
        r->mapped = 1; r->len = 0; r->beg = s.beg; // implementation leaves state Unmapped
        r->mapped = (r->r.state == ChannelState_Mapped);
        return;
    }
    if (s.beg < g_ch.data || s.end > g_ch.data + g_ch.capacity) {
        violation("C02", "slice-outside-buffer", "reader %d slice outside buffer", i);
        return;
    }
    size_t a = (size_t)(s.beg - g_ch.data);
    if (g_w.mapped && g_w.n) {
        // the same forbidden state as "the writer is handed memory a reader holds", reached from the other side
        size_t wa = (size_t)(g_w.p - g_ch.data);
        if (a < wa + g_w.n && wa < a + len)
            violation("C02,C01", "read-slice-overlaps-writer-region", "reader %d was handed [%zu,%zu) while the writer holds the uncommitted region [%zu,%zu)",
                      i, a, a + len, wa, wa + g_w.n);
    }
    if (!r->joined) {
        // join boundary: latest write boundary <= S_at_call whose address is the slice start
        int found = 0;
        for (size_t k = g_nsegs; k-- > 0;) {
            if (g_segs[k].start <= S_at_call && g_segs[k].addr == a) { r->off = g_segs[k].start; found = 1; break; }
        }
        if (!found) {
            violation("C01", "join-not-at-write-boundary", "reader %d first slice at %zu is no write boundary", i, a);
            r->joined = 1; r->off = g_S; r->mapped = 1; r->len = len; r->beg = s.beg;
            goto Snap;
        }
        r->joined = 1;
        if (r->off < g_S && g_nsegs > 1) ++C.joins_late;
    }
    if (r->off + len > g_S) {
        violation("C01,C02", "slice-beyond-committed",
                  "reader %d slice of %zu bytes at off %llu exceeds committed %llu", i, len,
                  (unsigned long long)r->off, (unsigned long long)g_S);
        len = (size_t)(g_S - r->off);
    }
    // address continuity and content
    {
        int lap = 0; size_t prev_seg = seg_find(r->off);
        for (size_t j = 0; j < len; ++j) {
            uint64_t o = r->off + j;
            if (addr_of(o) != a + j) {
                violation("C01,C02", "slice-address-mismatch",
                          "reader %d byte %zu of slice: stream %llu lives at %zu, slice says %zu", i, j,
                          (unsigned long long)o, addr_of(o), a + j);
                break;
            }
            if (s.beg[j] != prf(o)) {
                violation("C01", "slice-content-mismatch", "reader %d stream byte %llu altered (got %u want %u)", i,
                          (unsigned long long)o, s.beg[j], prf(o));
                break;
            }
        }
        (void)lap; (void)prev_seg;
    }
    r->mapped = 1; r->len = (size_t)(s.end - s.beg); r->beg = s.beg;
Snap:
    if (r->snapcap < r->len) { r->snap = (uint8_t*)realloc(r->snap, r->len); r->snapcap = r->len; }
    memcpy(r->snap, r->beg, r->len);
}

static void step_read_map(int i)
{
    struct mreader* r = &g_rd[i];
    size_t id = r->r.id;
    int was_prev_lap = id && g_ch.holds.cycles[id - 1] != g_ch.cycle;
    vbuf_printf(&g_log, "RM%d ", i);
    struct slice s = channel_read_map(&g_ch, &r->r);
    vbuf_printf(&g_log, "=%td+%td ", s.beg ? s.beg - g_ch.data : -1, s.end - s.beg);
    if (was_prev_lap && s.end > s.beg) ++C.lapcross_reads;
    reader_check_slice(i, s, g_S);
}

static void step_read_unmap(int i, size_t consumed)
{
    struct mreader* r = &g_rd[i];
    vbuf_printf(&g_log, "RU%d,%zu ", i, consumed);
    if (r->mapped && r->len && memcmp(r->snap, r->beg, r->len) != 0)
        violation("C02", "mapped-slice-modified", "reader %d slice changed while mapped", i);
    channel_read_unmap(&g_ch, &r->r, consumed);
    if (r->mapped) {
        size_t c = consumed < r->len ? consumed : r->len;
        if (consumed > r->len) ++C.over_unmaps;
        else if (consumed < r->len) ++C.partial_unmaps;
        r->off += c;
    }
    r->mapped = 0; r->len = 0;
    if (r->r.status != Channel_Ok) {
        violation("C01,C06", "reader-status-error", "reader %d status=%d after read_unmap", i, (int)r->r.status);
        r->r.status = Channel_Ok;
    }
}

// ----- Mode A -------------------------------------------------------------------------------
static size_t pick_cap(vrng* g)
{
    switch (vrng_below(g, 10)) {
        case 0: case 1: case 2: return (size_t)vrng_range(g, 8, 24);
        case 3: case 4: case 5: return (size_t)vrng_range(g, 25, 96);
        case 6: case 7: return (size_t)vrng_range(g, 97, 512);
        default: return (size_t)vrng_range(g, 513, 4096);
    }
}
static int g_peek = 1; // generator may look at ring cursors (never in free-running mode)
static size_t pick_write(vrng* g, size_t cap)
{
    size_t n;
    unsigned sel = (unsigned)vrng_below(g, 12);
    if (!g_peek && sel >= 4 && sel <= 6) sel = 11;
    switch (sel) {
        case 0: n = 1; break;
        case 1: n = cap / 3; break;
        case 2: n = cap / 2; break;
        case 3: n = cap - 1; break;
        case 4: n = cap - g_ch.head; break;                 // exactly up to the end
        case 5: { // exactly what is free before the slowest reader
            size_t t = g_ch.holds.n ? g_ch.holds.pos[0] : 0;
            for (unsigned i = 1; i < g_ch.holds.n; ++i) if (g_ch.holds.pos[i] < t) t = g_ch.holds.pos[i];
            n = t > g_ch.head ? t - g_ch.head : t; break;
        }
        case 6: n = g_ch.head ? g_ch.head : 1; break;       // exactly the consumed prefix
        case 7: n = (size_t)vrng_range(g, 1, cap < 9 ? cap - 1 : 8); break;
        case 8: n = vrng_chance(g, 1, 8) ? 0 : 2; break;
        default: n = (size_t)vrng_range(g, 1, cap - 1); break;
    }
    if (n >= cap) n = cap - 1;
    return n;
}

// After an operation issued by the controller while the writer was asleep.
static unsigned long g_entries_before; // wait entries when the current step began
static void after_op_with_sleeping_writer(unsigned long done_before, unsigned long notifies_before,
                                          int* w_asleep, size_t wn)
{
    unsigned long entries = g_entries_before;
    int notified = atomic_load(&g_notifies) != notifies_before;
    int done = 0;
    if (notified) {
        // a notification was issued while the writer was inside the wait: it will wake up
        // and either return or re-enter the wait (entries+1)
        unsigned k = 0; double t0 = now_s();
        for (;;) {
            if (atomic_load(&w_done) > done_before) { done = 1; break; }
            if (atomic_load(&g_wait_entries) > entries) { done = writer_settle(done_before, entries); break; }
            spin_pause(&k);
            if ((k & 1023) == 0 && now_s() - t0 > 60) watchdog_fail("after_notify");
        }
    }
    if (done) {
        *w_asleep = 0;
        if (!g_accepting) {
            if (w_res) violation("C03", "region-while-refusing", "blocked write_map returned a region after refuse");
            else ++C.resumed_null_after_refuse;
            vbuf_printf(&g_log, "(w:null) ");
            if (w_res) channel_abort_write(&g_ch);
        } else {
            ++C.resumed_after_release;
            vbuf_printf(&g_log, "(w:resumed) ");
            on_write_mapped(w_res, wn);
        }
        return;
    }
    // still asleep: is that allowed?
    if (!g_accepting)
        violation("C03", "asleep-while-refusing", "writer still asleep after accept_writes(0) (%s)",
                  notified ? "notified, re-slept" : "no notification emitted");
    else if (all_drained())
        violation("C03", "asleep-while-drained", "writer (n=%zu) still asleep although every reader drained (%s)",
                  wn, notified ? "notified, re-slept" : "no notification emitted");
    ++C.drained_checks;
}

static void unblock_writer_by_probe(unsigned long done_before)
{
    // used after a violation to get the writer back: refuse writes and notify
    atomic_store(&g_probe_mode, 1);
    __real_lock_acquire(&g_ch.lock);
    g_ch.is_accepting_writes = 0;
    lock_release(&g_ch.lock);
    __real_condition_variable_notify_all(&g_ch.notify_space_available);
    unsigned k = 0; double t0 = now_s();
    while (atomic_load(&w_done) == done_before) {
        spin_pause(&k);
        if ((k & 255) == 0) __real_condition_variable_notify_all(&g_ch.notify_space_available);
        if ((k & 1023) == 0 && now_s() - t0 > 60) watchdog_fail("probe_unblock");
    }
    atomic_store(&g_probe_mode, 0);
    if (w_res) channel_abort_write(&g_ch);
    g_ch.is_accepting_writes = 1;
    g_accepting = 1;
}

static void run_modeA_case(uint64_t seed, unsigned long icase)
{
    vrng g; vrng_seed(&g, seed, 0xA, icase);
    g_prf_key = vrng_u64(&g);
    size_t cap = pick_cap(&g);
    int maxr = (int)vrng_range(&g, 1, 8);
    if (vrng_chance(&g, 1, 2)) maxr = (int)vrng_range(&g, 1, 3);
    int nsteps = (int)vrng_range(&g, 50, 400);
    int p_toggle = vrng_chance(&g, 1, 3) ? 0 : (int)vrng_range(&g, 1, 6);
    int eager = (int)vrng_range(&g, 0, 3); // reader eagerness profile
    int joins_at_start = vrng_chance(&g, 1, 2);

    vbuf_reset(&g_log);
    vbuf_printf(&g_log, "cap=%zu maxr=%d steps=%d | ", cap, maxr, nsteps);
    model_reset();
    channel_new(&g_ch, cap);
    g_case_violated = 0; g_case_wraps = 0; g_case_skew = 0;
    uint64_t hh = vhash_init();

    int w_asleep = 0; size_t wn = 0; unsigned long done_before = 0;
    size_t last_cycle = g_ch.cycle;

    for (int step = 0; step < nsteps && !g_case_violated; ++step) {
        ++C.steps;
        cover_state(w_asleep ? 2 : (g_w.mapped ? 1 : 0));
        unsigned long notifies_before = atomic_load(&g_notifies);
        g_entries_before = atomic_load(&g_wait_entries);
        // candidate actions
        enum { A_WMAP, A_WCOMMIT, A_WABORT, A_RMAP, A_RUNMAP, A_JOIN, A_TOGGLE } act;
        int ri = -1;
        {
            unsigned wts[7] = { 0 };
            if (!w_asleep && !g_w.mapped) wts[A_WMAP] = 30;
            if (g_w.mapped) { wts[A_WCOMMIT] = 40; wts[A_WABORT] = 5; }
            int nm = 0, nu = 0;
            for (int i = 0; i < g_nrd; ++i) { if (g_rd[i].mapped) ++nm; else ++nu; }
            wts[A_RMAP] = nu ? (unsigned)(8 + 8 * eager) : 0;
            wts[A_RUNMAP] = nm ? (unsigned)(10 + 8 * eager) : 0;
            if (g_nrd < maxr) wts[A_JOIN] = (joins_at_start && step < 4) ? 60 : 3;
            wts[A_TOGGLE] = (unsigned)p_toggle;
            if (w_asleep) { wts[A_RMAP] *= 3; wts[A_RUNMAP] *= 3; }
            unsigned tot = 0; for (int k = 0; k < 7; ++k) tot += wts[k];
            if (!tot) { wts[A_JOIN] = 1; tot = 1; if (g_nrd >= maxr) break; }
            unsigned x = (unsigned)vrng_below(&g, tot); int k = 0;
            while (x >= wts[k]) { x -= wts[k]; ++k; }
            act = k;
            if (act == A_RMAP || act == A_RUNMAP) {
                int want = (act == A_RUNMAP);
                int cnt = 0; for (int i = 0; i < g_nrd; ++i) if (g_rd[i].mapped == want) ++cnt;
                int pick = (int)vrng_below(&g, (uint64_t)cnt);
                for (int i = 0; i < g_nrd; ++i) if (g_rd[i].mapped == want && pick-- == 0) { ri = i; break; }
            }
        }
        hh = vhash_add(hh, (uint64_t)act * 16 + (uint64_t)(ri + 1));
        switch (act) {
            case A_WMAP: {
                wn = pick_write(&g, cap);
                hh = vhash_add(hh, wn);
                vbuf_printf(&g_log, "WM%zu ", wn);
                done_before = atomic_load(&w_done);
                unsigned long entries = atomic_load(&g_wait_entries);
                w_arg = wn; w_res = 0;
                atomic_store(&w_cmd, 1);
                if (writer_settle(done_before, entries)) {
                    on_write_mapped(w_res, wn);
                } else {
                    w_asleep = 1; ++C.sleeps;
                    vbuf_printf(&g_log, "(w:asleep) ");
                    // sleeping is only legitimate if something is unconsumed and we accept
                    if (!g_accepting)
                        violation("C03", "sleeps-while-refusing", "write_map(%zu) went to sleep while refusing", wn);
                    else if (all_drained())
                        violation("C03,C02", "sleeps-while-drained", "write_map(%zu) sleeps with every reader drained", wn);
                    else {
                        int any; uint64_t mn = min_reader_off(&any);
                        if (any && g_S - mn + wn + 1 >= cap) ++C.exact_full;
                    }
                }
                break;
            }
            case A_WCOMMIT: step_write_commit(0); break;
            case A_WABORT: step_write_commit(1); break;
            case A_JOIN: ri = g_nrd++; /* fallthrough: first read_map registers the reader */
            case A_RMAP: step_read_map(ri); break;
            case A_RUNMAP: {
                struct mreader* r = &g_rd[ri];
                size_t c;
                switch (vrng_below(&g, 8)) {
                    case 0: c = 0; break;
                    case 1: c = r->len ? (size_t)vrng_range(&g, 0, r->len) : 0; break;
                    case 2: c = r->len + (size_t)vrng_range(&g, 1, 9); break;
                    case 3: c = r->len ? r->len - 1 : 0; break;
                    default: c = r->len; break;
                }
                hh = vhash_add(hh, c);
                step_read_unmap(ri, c);
                break;
            }
            case A_TOGGLE: {
                int tf = vrng_chance(&g, 1, 2);
                if (!g_accepting) tf = vrng_chance(&g, 3, 4);
                // a refusal while a region is mapped would make "did it commit" depend on the
                // order of two calls we issue sequentially anyway; both orders are generated.
                vbuf_printf(&g_log, "T%d ", tf);
                channel_accept_writes(&g_ch, (uint32_t)tf);
                g_accepting = tf; ++C.toggles;
                if (atomic_load(&g_notifies) == notifies_before)
                    violation("C03", "toggle-without-notify", "accept_writes(%d) emitted no notification", tf);
                break;
            }
        }
        if (g_ch.cycle != last_cycle) {
            last_cycle = g_ch.cycle; ++g_case_wraps;
            int lag = 0;
            for (unsigned i = 0; i < g_ch.holds.n; ++i) if (g_ch.holds.cycles[i] != g_ch.cycle) lag = 1;
            if (lag) ++C.wraps_lag; else ++C.wraps_reset;
        }
        if (w_asleep && !g_case_violated)
            after_op_with_sleeping_writer(done_before, notifies_before, &w_asleep, wn);
        if (act == A_RUNMAP && !g_case_violated && g_rd[ri].joined) {
            // a consuming unmap must notify (a sleeping writer may be waiting for it)
            (void)0;
        }
    }
    // ---- wind down: release the writer, commit, drain every reader -------------------------
    if (w_asleep && g_case_violated) {
        unblock_writer_by_probe(done_before);
        w_asleep = 0;
    }
    if (!g_case_violated) {
        if (!g_accepting) {
            unsigned long nb = atomic_load(&g_notifies);
            g_entries_before = atomic_load(&g_wait_entries);
            vbuf_printf(&g_log, "T1 ");
            channel_accept_writes(&g_ch, 1); g_accepting = 1;
            if (w_asleep) after_op_with_sleeping_writer(done_before, nb, &w_asleep, wn);
        }
        for (int round = 0; w_asleep && round < 64 && !g_case_violated; ++round) {
            for (int i = 0; i < g_nrd && w_asleep && !g_case_violated; ++i) {
                unsigned long nb = atomic_load(&g_notifies);
                g_entries_before = atomic_load(&g_wait_entries);
                if (!g_rd[i].mapped) step_read_map(i);
                if (w_asleep && !g_case_violated) after_op_with_sleeping_writer(done_before, nb, &w_asleep, wn);
                nb = atomic_load(&g_notifies);
                g_entries_before = atomic_load(&g_wait_entries);
                if (g_rd[i].mapped) step_read_unmap(i, g_rd[i].len);
                if (w_asleep && !g_case_violated) after_op_with_sleeping_writer(done_before, nb, &w_asleep, wn);
            }
        }
        if (w_asleep && !g_case_violated)
            violation("C03", "writer-never-released", "writer still asleep after all readers drained 64 rounds");
        if (w_asleep) { unblock_writer_by_probe(done_before); w_asleep = 0; }
        if (g_w.mapped) step_write_commit(0);
        // bounded drain: old-lap remainder, new lap, then empty
        for (int i = 0; i < g_nrd && !g_case_violated; ++i) {
            if (g_rd[i].mapped) step_read_unmap(i, g_rd[i].len);
            int calls = 0;
            for (;;) {
                step_read_map(i); ++calls;
                size_t l = g_rd[i].len; int m = g_rd[i].mapped;
                if (m) step_read_unmap(i, l);
                if (!l || g_case_violated) break;
                if (calls > 3) {
                    violation("C03,C01", "drain-not-bounded", "reader %d not drained after %d map/unmap-all calls", i, calls);
                    break;
                }
            }
            if (!g_case_violated && g_rd[i].off != g_S)
                violation("C01", "final-loss", "reader %d ended at %llu of %llu committed", i,
                          (unsigned long long)g_rd[i].off, (unsigned long long)g_S);
        }
    } else if (g_w.mapped) {
        channel_abort_write(&g_ch); g_w.mapped = 0;
    }
    ++C.cases;
    if (g_case_wraps && g_case_skew) { if (vset_add(&g_hist, hh)) ++C.nontrivial; }
    if ((g_verbose || (icase % 997) == 0) && !g_case_violated) {
        printf("H {\"mode\":\"modeA\",\"seed\":%llu,\"case\":%lu,\"wraps\":%d,\"oplog\":", (unsigned long long)seed, icase, g_case_wraps);
        vjson_str(stdout, g_log.p);
        printf("}\n");
    }
    channel_release(&g_ch);
}

// ----- window mode (C03.3) ----------------------------------------------------------------
// Racer thread: performs one operation on command.
static _Atomic int r_cmd; // 0 idle 1 unmap-consume 2 refuse 3 accept(noop) 9 exit
static int r_reader; static size_t r_consume;
static _Atomic unsigned long r_done;
static pthread_t r_thread;

static void* racer_main(void* _)
{
    (void)_;
    t_role = ROLE_RACER;
    unsigned k = 0;
    for (;;) {
        int c = atomic_load(&r_cmd);
        if (!c) { spin_pause(&k); continue; }
        k = 0;
        if (c == 9) return 0;
        if (c == 1) channel_read_unmap(&g_ch, &g_rd[r_reader].r, r_consume);
        else if (c == 2) channel_accept_writes(&g_ch, 0);
        else if (c == 3) channel_accept_writes(&g_ch, 1);
        atomic_store(&r_cmd, 0);
        atomic_fetch_add(&r_done, 1);
    }
}

static void run_window_case(uint64_t seed, unsigned long icase)
{
    vrng g; vrng_seed(&g, seed, 0xB, icase);
    g_prf_key = vrng_u64(&g);
    size_t cap = (size_t)vrng_range(&g, 8, 200);
    int nr = (int)vrng_range(&g, 1, 4);
    vbuf_reset(&g_log);
    vbuf_printf(&g_log, "window cap=%zu nr=%d | ", cap, nr);
    model_reset();
    channel_new(&g_ch, cap);
    g_case_violated = 0;
    // prefix: random sequential traffic to reach a varied state, ending with data unread
    for (int i = 0; i < nr; ++i) { g_nrd = i + 1; step_read_map(i); if (g_rd[i].mapped) step_read_unmap(i, g_rd[i].len); }
    int pre = (int)vrng_range(&g, 0, 30);
    for (int s = 0; s < pre && !g_case_violated; ++s) {
        // never block in the prefix: only write what surely fits = nothing unread
        if (all_drained()) {
            size_t n = (size_t)vrng_range(&g, 1, cap - 1);
            vbuf_printf(&g_log, "WM%zu ", n);
            g_ctrl_write_fits = 1; g_ctrl_write_n = n;
            void* p = channel_write_map(&g_ch, n);
            g_ctrl_write_fits = 0;
            on_write_mapped(p, n);
            if (g_w.mapped) step_write_commit(0);
        } else {
            int i = (int)vrng_below(&g, (uint64_t)nr);
            step_read_map(i);
            if (g_rd[i].mapped) step_read_unmap(i, vrng_chance(&g, 1, 3) ? g_rd[i].len / 2 : g_rd[i].len);
        }
    }
    // drain, then make the ring hold data so that a big write must sleep
    for (int i = 0; i < nr && !g_case_violated; ++i)
        for (int k = 0; k < 4; ++k) { step_read_map(i); size_t l = g_rd[i].len; if (g_rd[i].mapped) step_read_unmap(i, l); if (!l) break; }
    if (g_case_violated) { channel_release(&g_ch); ++C.cases; return; }
    size_t n1 = (size_t)vrng_range(&g, cap / 2 + 1, cap - 1);
    vbuf_printf(&g_log, "WM%zu ", n1);
    g_ctrl_write_fits = all_drained(); g_ctrl_write_n = n1;
    void* p = channel_write_map(&g_ch, n1);
    g_ctrl_write_fits = 0;
    on_write_mapped(p, n1);
    if (g_w.mapped) step_write_commit(0);
    // one reader (the victim) maps the data; others may drain fully
    int victim = (int)vrng_below(&g, (uint64_t)nr);
    for (int i = 0; i < nr && !g_case_violated; ++i) {
        if (i == victim) { step_read_map(i); continue; }
        for (int k = 0; k < 4; ++k) { step_read_map(i); size_t l = g_rd[i].len; if (g_rd[i].mapped) step_read_unmap(i, l); if (!l) break; }
    }
    // the victim's slice must be everything that is still unread, so that its unmap alone
    // makes room; otherwise (or after an unrelated violation) this is not a window case
    if (g_case_violated || !g_rd[victim].mapped || g_rd[victim].off + g_rd[victim].len != g_S) {
        if (g_rd[victim].mapped) step_read_unmap(victim, g_rd[victim].len);
        channel_release(&g_ch); ++C.cases;
        return;
    }
    for (int i = 0; i < nr; ++i)
        if (i != victim && g_rd[i].off != g_S) { step_read_unmap(victim, g_rd[victim].len); channel_release(&g_ch); ++C.cases; return; }
    size_t n2 = (size_t)vrng_range(&g, cap - n1 + 1 > cap - 1 ? cap - 1 : cap - n1 + 1, cap - 1);
    int racer_op = (int)vrng_range(&g, 1, 2);   // 1 = consuming unmap, 2 = refuse
    int extra_noop = vrng_chance(&g, 1, 4);
    vbuf_printf(&g_log, "| arm WM%zu race=%s ", n2, racer_op == 1 ? "unmap" : "refuse");

    unsigned long done_before = atomic_load(&w_done);
    unsigned long entries = atomic_load(&g_wait_entries);
    atomic_store(&g_window_go, 0);
    atomic_store(&g_window_armed, 1);
    w_arg = n2; w_res = 0;
    atomic_store(&w_cmd, 1);
    // wait until the writer is parked in the window (or returned without sleeping)
    unsigned k = 0; double t0 = now_s();
    while (!atomic_load(&g_in_window) && atomic_load(&w_done) == done_before) {
        spin_pause(&k);
        if ((k & 1023) == 0 && now_s() - t0 > 60) watchdog_fail("window_enter");
    }
    if (atomic_load(&w_done) != done_before) {
        // did not need to sleep (possible when placement found room); not a window case
        atomic_store(&g_window_armed, 0);
        on_write_mapped(w_res, n2);
        if (g_w.mapped) step_write_commit(0);
        channel_release(&g_ch); ++C.cases;
        return;
    }
    ++C.window_cases; ++C.sleeps;
    // the racing operation, issued while the writer has evaluated its predicate but not slept
    unsigned long rdone = atomic_load(&r_done);
    atomic_store(&g_racer_on_lock, 0);
    r_reader = victim; r_consume = g_rd[victim].len;
    atomic_store(&r_cmd, racer_op);
    k = 0; t0 = now_s();
    while (atomic_load(&r_done) == rdone && !atomic_load(&g_racer_on_lock)) {
        spin_pause(&k);
        if ((k & 1023) == 0 && now_s() - t0 > 60) watchdog_fail("racer_progress");
    }
    // give a racer that does not take the lock at all the chance to run to completion
    for (int y = 0; y < 200 && atomic_load(&r_done) == rdone && !atomic_load(&g_racer_on_lock); ++y) sched_yield();
    { struct timespec ts = { 0, 200000 }; nanosleep(&ts, 0); }
    int completed_early = atomic_load(&r_done) != rdone;
    if (completed_early) ++C.window_racer_completed_early; else ++C.window_racer_blocked;
    vbuf_printf(&g_log, completed_early ? "(racer completed inside the window) " : "(racer queued on lock) ");
    // model update of the racing op
    if (racer_op == 1) { g_rd[victim].off += g_rd[victim].len; g_rd[victim].mapped = 0; g_rd[victim].len = 0; }
    else g_accepting = 0;
    (void)extra_noop;
    atomic_store(&g_window_go, 1); // writer now really goes to sleep
    // wait for: racer done
    k = 0; t0 = now_s();
    while (atomic_load(&r_done) == rdone) {
        spin_pause(&k);
        if ((k & 1023) == 0 && now_s() - t0 > 60) watchdog_fail("racer_finish");
    }
    // The racer has finished, so the state change + its notification are in the past.
    // Correct code: the writer was inside the wait when they happened => it must return.
    int done = 0;
    k = 0; t0 = now_s();
    double grace = completed_early ? 0.3 : 10.0;
    while (now_s() - t0 < grace) {
        if (atomic_load(&w_done) != done_before) { done = 1; break; }
        spin_pause(&k);
    }
    if (!done) {
        // confirm it is inside the wait, then probe
        int settled = writer_settle(done_before, entries);
        if (settled) done = 1;
        else {
            atomic_store(&g_probe_mode, 1);
            __real_condition_variable_notify_all(&g_ch.notify_space_available);
            atomic_store(&g_probe_mode, 0);
            k = 0; t0 = now_s(); int after_probe = 0;
            while (now_s() - t0 < 20.0) {
                if (atomic_load(&w_done) != done_before) { after_probe = 1; break; }
                spin_pause(&k);
            }
            if (after_probe) {
                violation("C03", racer_op == 1 ? "lost-wakeup-unmap" : "lost-wakeup-refuse",
                          "writer slept through %s issued in its check-then-sleep window (%s); returned only after a probe notification",
                          racer_op == 1 ? "a consuming read_unmap" : "accept_writes(0)",
                          completed_early ? "the operation completed while the writer held the lock" : "operation queued on the lock");
                done = 1;
            } else {
                violation("C03", "writer-stuck-after-probe", "writer did not return even after a probe notification");
                unblock_writer_by_probe(done_before);
                channel_release(&g_ch); ++C.cases;
                return;
            }
        }
    }
    // result check
    if (racer_op == 2) {
        if (w_res) { violation("C03", "region-while-refusing", "write_map returned a region after refuse in window"); channel_abort_write(&g_ch); }
        else ++C.resumed_null_after_refuse;
        channel_accept_writes(&g_ch, 1); g_accepting = 1;
    } else {
        if (!w_res) violation("C03", "write-map-null-while-accepting", "write_map returned NULL after space was released");
        else { ++C.resumed_after_release; on_write_mapped(w_res, n2); if (g_w.mapped) step_write_commit(0); }
    }
    // drain and verify C01 at the end as well
    for (int i = 0; i < nr && !g_case_violated; ++i) {
        if (g_rd[i].mapped) step_read_unmap(i, g_rd[i].len);
        for (int c = 0; c < 4; ++c) { step_read_map(i); size_t l = g_rd[i].len; if (g_rd[i].mapped) step_read_unmap(i, l); if (!l) break; }
        if (!g_case_violated && g_rd[i].off != g_S)
            violation("C01", "final-loss", "reader %d ended at %llu of %llu", i, (unsigned long long)g_rd[i].off, (unsigned long long)g_S);
    }
    if ((g_verbose || icase % 211 == 0) && !g_case_violated) {
        printf("H {\"mode\":\"window\",\"seed\":%llu,\"case\":%lu,\"oplog\":", (unsigned long long)seed, icase);
        vjson_str(stdout, g_log.p); printf("}\n");
    }
    vset_add(&g_hist, vmix(vmix(cap, n1), vmix(n2, (uint64_t)racer_op * 8 + (uint64_t)nr)));
    channel_release(&g_ch); ++C.cases;
}

// ----- stress mode (Mode B) -----------------------------------------------------------------
// Free-running threads; every oracle is thread-local or uses atomics, so the monitor is
// not itself a race.  Stream position is recovered from a commit table the writer publishes.
struct sseg { _Atomic uint64_t start; _Atomic uint64_t addr; _Atomic uint64_t len; };
static struct sseg* s_tab; static _Atomic size_t s_ntab; static size_t s_captab;
static _Atomic uint64_t s_committed;  // lower bound of committed bytes, published after unmap
static _Atomic int s_stop, s_viol;
static pthread_mutex_t s_inflight = PTHREAD_MUTEX_INITIALIZER; // writer holds it map..unmap
static pthread_mutex_t s_out = PTHREAD_MUTEX_INITIALIZER;
static _Atomic unsigned long s_reads, s_empty, s_nullmaps, s_commits, s_rbytes, s_sleep0;
static int s_delay;
static void s_violation(const char* props, const char* key, const char* fmt, ...);
static _Atomic uint64_t s_roff[8];
static _Atomic int s_rjoined[8];
static _Atomic unsigned long s_rpolls[8];
static _Atomic int s_nreaders, s_wd_stop;

// Quiescence monitor of the free-running mode.  A hang is a violation only with a logical
// witness: the writer is inside the wait, every joined reader has consumed everything
// committed, nothing was committed meanwhile, and the readers kept polling (>=1000 more
// polls each, i.e. the machine is scheduling threads) for at least 10 s.
static void* s_watchdog_main(void* _)
{
    (void)_;
    unsigned long last_prog = ~0ul, polls0[8] = { 0 };
    double t_same = now_s();
    while (!atomic_load(&s_wd_stop)) {
        struct timespec ts = { 0, 50 * 1000 * 1000 };
        nanosleep(&ts, 0);
        unsigned long prog = atomic_load(&s_commits) + atomic_load(&s_rbytes) + atomic_load(&s_nullmaps);
        if (prog != last_prog) {
            last_prog = prog; t_same = now_s();
            for (int i = 0; i < 8; ++i) polls0[i] = atomic_load(&s_rpolls[i]);
            continue;
        }
        double dt = now_s() - t_same;
        int nr = atomic_load(&s_nreaders), asleep = atomic_load(&g_wait_entries) > atomic_load(&g_wakeups);
        int drained = 1, polling = 1, anyj = 0;
        uint64_t S = atomic_load(&s_committed);
        for (int i = 0; i < nr; ++i) {
            if (!atomic_load(&s_rjoined[i])) continue;
            anyj = 1;
            if (atomic_load(&s_roff[i]) != S) drained = 0;
            if (atomic_load(&s_rpolls[i]) - polls0[i] < 1000) polling = 0;
        }
        if (dt > 10 && asleep && anyj && drained && polling)
            s_violation("C03", "stress-writer-asleep-all-drained",
                        "writer inside the wait for %.0f s while every reader had consumed all %llu committed bytes and kept polling",
                        dt, (unsigned long long)S);
        if (dt > 90) watchdog_fail(asleep ? "stress: no progress, writer asleep" : "stress: no progress");
    }
    return 0;
}

static void s_violation(const char* props, const char* key, const char* fmt, ...)
{
    char msg[512]; va_list ap; va_start(ap, fmt); vsnprintf(msg, sizeof msg, fmt, ap); va_end(ap);
    pthread_mutex_lock(&s_out);
    ++g_nviol; atomic_store(&s_viol, 1);
    printf("V {\"props\":\"%s\",\"key\":\"%s\",\"mode\":\"stress\",\"seed\":%llu,\"case\":%lu,\"msg\":", props, key,
           (unsigned long long)g_seed, g_case);
    vjson_str(stdout, msg); printf(",\"oplog\":"); vjson_str(stdout, g_log.p ? g_log.p : ""); printf("}\n");
    fflush(stdout);
    _exit(4); // the other threads may be wedged by the broken channel; the V record is the result
}
static void s_jitter(vrng* g)
{
    if (!s_delay) return;
    unsigned x = (unsigned)vrng_below(g, 16);
    if (x < 8) return;
    if (x < 13) { sched_yield(); return; }
    struct timespec ts = { 0, (long)vrng_range(g, 1000, 200000) };
    nanosleep(&ts, 0);
}
struct sreader_arg { int idx; uint64_t seed; int style; int join_delay; };

static void* s_reader_main(void* a_)
{
    struct sreader_arg* a = (struct sreader_arg*)a_;
    t_role = ROLE_RACER;
    vrng g; vrng_seed(&g, a->seed, 0xC, (uint64_t)a->idx);
    struct channel_reader rd = { 0 };
    int joined = 0; uint64_t off = 0;
    uint8_t* snap = 0; size_t snapcap = 0;
    for (int d = 0; d < a->join_delay && !atomic_load(&s_stop); ++d) sched_yield();
    int final_rounds = 0;
    for (;;) {
        int stopping = atomic_load(&s_stop);
        uint64_t lb = atomic_load(&s_committed);
        size_t ntab_before = atomic_load(&s_ntab);
        struct slice s = channel_read_map(&g_ch, &rd);
        size_t len = (size_t)(s.end - s.beg);
        atomic_fetch_add(&s_reads, 1);
        atomic_fetch_add(&s_rpolls[a->idx], 1);
        if (rd.status != Channel_Ok) { s_violation("C01", "reader-status-error", "reader %d status %d", a->idx, (int)rd.status); break; }
        if (!len) {
            atomic_fetch_add(&s_empty, 1);
            if (!joined) { joined = 1; off = atomic_load(&s_committed); /* joined somewhere in [lb, now] */
                           if (off != lb) { joined = 0; }
                           else { atomic_store(&s_roff[a->idx], off); atomic_store(&s_rjoined[a->idx], 1); } }
            else if (off < lb) {
                s_violation("C01", "empty-but-not-drained", "reader %d empty slice, off=%llu but >=%llu committed", a->idx,
                            (unsigned long long)off, (unsigned long long)lb);
                break;
            }
            if (stopping && ++final_rounds > 3) break;
            s_jitter(&g);
            if (a->style == 2) { struct timespec ts = { 0, 300000 }; nanosleep(&ts, 0); }
            continue;
        }
        final_rounds = 0;
        if (s.beg < g_ch.data || s.end > g_ch.data + g_ch.capacity) { s_violation("C02", "slice-outside-buffer", "reader %d", a->idx); break; }
        size_t addr = (size_t)(s.beg - g_ch.data);
        if (!joined) {
            size_t nt = atomic_load(&s_ntab); int found = 0;
            (void)ntab_before;
            for (size_t k = nt; k-- > 0;) {
                if (atomic_load(&s_tab[k].addr) == addr) { off = atomic_load(&s_tab[k].start); found = 1; break; }
            }
            if (!found) { s_violation("C01", "join-not-at-write-boundary", "reader %d first slice at %zu", a->idx, addr); break; }
            joined = 1;
            atomic_store(&s_roff[a->idx], off); atomic_store(&s_rjoined[a->idx], 1);
        }
        for (size_t j = 0; j < len; ++j)
            if (s.beg[j] != prf(off + j)) {
                s_violation("C01,C02", "slice-content-mismatch", "reader %d stream byte %llu: got %u want %u (slice %zu+%zu)", a->idx,
                            (unsigned long long)(off + j), s.beg[j], prf(off + j), addr, len);
                goto Out;
            }
        if (snapcap < len) { snap = (uint8_t*)realloc(snap, len); snapcap = len; }
        memcpy(snap, s.beg, len);
        s_jitter(&g);
        if (a->style == 1 && vrng_chance(&g, 1, 8)) { struct timespec ts = { 0, 500000 }; nanosleep(&ts, 0); }
        if (memcmp(snap, s.beg, len) != 0) { s_violation("C02", "mapped-slice-modified", "reader %d slice changed while mapped", a->idx); break; }
        size_t c = len;
        if (!stopping) switch (vrng_below(&g, 6)) { case 0: c = (size_t)vrng_range(&g, 0, len); break; case 1: c = len + 3; break; default: break; }
        channel_read_unmap(&g_ch, &rd, c);
        off += c < len ? c : len;
        atomic_store(&s_roff[a->idx], off);
        atomic_fetch_add(&s_rbytes, c < len ? c : len);
        s_jitter(&g);
    }
Out:
    if (rd.state == ChannelState_Mapped) channel_read_unmap(&g_ch, &rd, 0);
    if (!atomic_load(&s_viol) && joined) {
        uint64_t fin = atomic_load(&s_committed);
        if (off != fin) s_violation("C01", "final-loss", "reader %d ended at %llu of %llu", a->idx, (unsigned long long)off, (unsigned long long)fin);
    }
    free(snap);
    return 0;
}

static void* s_toggler_main(void* a_)
{
    struct sreader_arg* a = (struct sreader_arg*)a_;
    t_role = ROLE_RACER;
    vrng g; vrng_seed(&g, a->seed, 0xD, 0);
    while (!atomic_load(&s_stop)) {
        struct timespec ts = { 0, (long)vrng_range(&g, 20000, 2000000) };
        nanosleep(&ts, 0);
        // s_inflight is held for the whole refusal phase.  The writer try-locks it after a
        // successful write_map: success => no refusal can happen before its unmap (commit is
        // certain); failure => it aborts the write (never commits).  A writer blocked inside
        // write_map does not hold the mutex, so refusals do hit sleeping writers.
        pthread_mutex_lock(&s_inflight);
        channel_accept_writes(&g_ch, 0);
        ts.tv_nsec = (long)vrng_range(&g, 1000, 300000);
        nanosleep(&ts, 0);
        channel_accept_writes(&g_ch, 1);
        pthread_mutex_unlock(&s_inflight);
    }
    return 0;
}

static void run_stress_case(uint64_t seed, unsigned long icase, unsigned long ops)
{
    vrng g; vrng_seed(&g, seed, 0xE, icase);
    g_prf_key = vrng_u64(&g);
    size_t cap = pick_cap(&g);
    int nr = (int)vrng_range(&g, 1, 7);
    int toggler = vrng_chance(&g, 1, 3);
    s_delay = vrng_chance(&g, 2, 3);
    vbuf_reset(&g_log);
    vbuf_printf(&g_log, "stress cap=%zu readers=%d toggler=%d delay=%d ops=%lu", cap, nr, toggler, s_delay, ops);
    channel_new(&g_ch, cap);
    atomic_store(&s_ntab, 0); atomic_store(&s_committed, 0); atomic_store(&s_stop, 0); atomic_store(&s_viol, 0);
    if (s_captab < ops + 8) { s_captab = ops + 8; s_tab = (struct sseg*)realloc(s_tab, s_captab * sizeof *s_tab); }
    pthread_t th[8]; struct sreader_arg args[8]; pthread_t tog, wd;
    for (int i = 0; i < 8; ++i) { atomic_store(&s_rjoined[i], 0); atomic_store(&s_roff[i], 0); }
    atomic_store(&s_nreaders, nr); atomic_store(&s_wd_stop, 0);
    pthread_create(&wd, 0, s_watchdog_main, 0);
    for (int i = 0; i < nr; ++i) {
        args[i] = (struct sreader_arg){ i, vmix(seed, icase), (int)vrng_below(&g, 3), (int)vrng_range(&g, 0, 200) * (int)vrng_below(&g, 2) };
        pthread_create(&th[i], 0, s_reader_main, &args[i]);
    }
    struct sreader_arg targ = { 0, vmix(seed, icase), 0, 0 };
    if (toggler) pthread_create(&tog, 0, s_toggler_main, &targ);
    t_role = ROLE_WRITER; // count our own sleeps
    g_peek = 0;
    unsigned long e0 = atomic_load(&g_wait_entries);
    uint64_t S = 0;
    for (unsigned long op = 0; op < ops && !atomic_load(&s_stop); ++op) {
        size_t n = pick_write(&g, cap);
        if (!n) n = 1;
        uint8_t* p = (uint8_t*)channel_write_map(&g_ch, n);
        if (!p) {
            atomic_fetch_add(&s_nullmaps, 1);
            s_jitter(&g);
            continue;
        }
        if (p < g_ch.data || p + n > g_ch.data + cap) { s_violation("C02", "write-region-outside-buffer", "n=%zu", n); break; }
        if (pthread_mutex_trylock(&s_inflight) != 0) {
            channel_abort_write(&g_ch); // a refusal is in progress: outcome would be ambiguous
            continue;
        }
        for (size_t j = 0; j < n; ++j) p[j] = prf(S + j);
        if (vrng_chance(&g, 1, 12)) {
            channel_abort_write(&g_ch);
            pthread_mutex_unlock(&s_inflight);
            continue;
        }
        size_t k = atomic_load(&s_ntab);
        atomic_store(&s_tab[k].start, S); atomic_store(&s_tab[k].addr, (uint64_t)(p - g_ch.data)); atomic_store(&s_tab[k].len, n);
        atomic_store(&s_ntab, k + 1);
        channel_write_unmap(&g_ch);
        S += n;
        atomic_store(&s_committed, S);
        pthread_mutex_unlock(&s_inflight);
        atomic_fetch_add(&s_commits, 1);
        s_jitter(&g);
    }
    t_role = ROLE_CTRL;
    atomic_store(&s_stop, 1);
    if (toggler) { pthread_join(tog, 0); channel_accept_writes(&g_ch, 1); }
    for (int i = 0; i < nr; ++i) pthread_join(th[i], 0);
    atomic_store(&s_wd_stop, 1); pthread_join(wd, 0);
    C.stress_sleeps += atomic_load(&g_wait_entries) - e0;
    C.stress_bytes += S; ++C.stress_runs; ++C.cases;
    vset_add(&g_hist, vmix(vmix(seed, icase), vmix(cap, (uint64_t)nr * 4 + (uint64_t)toggler)));
    if (g_ch.cycle > 2 && nr >= 2) ++C.nontrivial;
    if (icase % 7 == 0 && !atomic_load(&s_viol)) {
        printf("H {\"mode\":\"stress\",\"seed\":%llu,\"case\":%lu,\"cfg\":", (unsigned long long)seed, icase);
        vjson_str(stdout, g_log.p);
        printf(",\"committed\":%llu,\"laps\":%zu}\n", (unsigned long long)S, g_ch.cycle);
    }
    channel_release(&g_ch);
}

// ----- main -----------------------------------------------------------------------------------
static void quiet_reporter(int e, const char* f, int l, const char* fn, const char* m) { (void)e; (void)f; (void)l; (void)fn; (void)m; }
void logger_set_reporter(void (*)(int, const char*, int, const char*, const char*));

int main(int argc, char** argv)
{
    if (argc < 5) { fprintf(stderr, "usage: %s modeA|window|stress seed first n [ops] [-v]\n", argv[0]); return 2; }
    g_mode = argv[1];
    g_own_prop = getenv("VERIF_PROP");
    g_seed = strtoull(argv[2], 0, 10);
    unsigned long first = strtoul(argv[3], 0, 10), n = strtoul(argv[4], 0, 10);
    unsigned long ops = 2000;
    for (int i = 5; i < argc; ++i) { if (!strcmp(argv[i], "-v")) g_verbose = 1; else ops = strtoul(argv[i], 0, 10); }
    logger_set_reporter(quiet_reporter);
    vset_init(&g_states, 1 << 12); vset_init(&g_hist, 1 << 16);
    setvbuf(stdout, 0, _IOFBF, 1 << 16);
    int is_stress = !strcmp(g_mode, "stress");
    if (!is_stress) {
        pthread_create(&w_thread, 0, writer_main, 0);
        pthread_create(&r_thread, 0, racer_main, 0);
    }
    for (unsigned long c = first; c < first + n; ++c) {
        g_case = c;
        if (g_nviol >= (strcmp(g_mode, "window") ? 25ul : 3ul)) break; // enough witnesses
        if (!strcmp(g_mode, "modeA")) run_modeA_case(g_seed, c);
        else if (!strcmp(g_mode, "window")) run_window_case(g_seed, c);
        else if (is_stress) run_stress_case(g_seed, c, ops);
        else return 2;
    }
    if (!is_stress) {
        atomic_store(&w_cmd, 9); atomic_store(&r_cmd, 9);
        pthread_join(w_thread, 0); pthread_join(r_thread, 0);
    }
    const char* hp = getenv("VERIF_HASH_OUT");
    if (hp) vset_dump(&g_hist, hp);
    printf("S {\"mode\":\"%s\",\"seed\":%llu,\"first\":%lu,\"n\":%lu,\"violations\":%lu,\"cases\":%lu,\"steps\":%lu,"
           "\"commits\":%lu,\"aborts\":%lu,\"null_maps\":%lu,\"writer_sleeps\":%lu,\"wraps_over_lagging_reader\":%lu,"
           "\"wraps_all_caught_up\":%lu,\"reads\":%lu,\"empty_reads\":%lu,\"lapcross_reads\":%lu,\"partial_unmaps\":%lu,"
           "\"over_unmaps\":%lu,\"late_joins\":%lu,\"toggles\":%lu,\"refused_commits\":%lu,\"zero_writes\":%lu,"
           "\"nontrivial_distinct\":%lu,\"distinct_histories\":%zu,\"abstract_states\":%zu,\"window_cases\":%lu,"
           "\"window_racer_queued_on_lock\":%lu,\"window_racer_completed_inside_window\":%lu,\"resumed_after_release\":%lu,"
           "\"resumed_null_after_refuse\":%lu,\"exact_full_sleeps\":%lu,\"drained_checks\":%lu,\"stress_runs\":%lu,\"stress_bytes\":%lu,"
           "\"stress_reads\":%lu,\"stress_empty_reads\":%lu,\"stress_null_maps\":%lu,\"stress_commits\":%lu,\"stress_writer_sleeps\":%lu,"
           "\"notifies\":%lu}\n",
           g_mode, (unsigned long long)g_seed, first, n, g_nviol, C.cases, C.steps, C.commits, C.aborts, C.null_maps, C.sleeps,
           C.wraps_lag, C.wraps_reset, C.reads, C.empty_reads, C.lapcross_reads, C.partial_unmaps, C.over_unmaps, C.joins_late,
           C.toggles, C.refused_commits, C.zero_writes, C.nontrivial, g_hist.n, g_states.n, C.window_cases, C.window_racer_blocked,
           C.window_racer_completed_early, C.resumed_after_release, C.resumed_null_after_refuse, C.exact_full, C.drained_checks,
           C.stress_runs, C.stress_bytes, (unsigned long)atomic_load(&s_reads), (unsigned long)atomic_load(&s_empty),
           (unsigned long)atomic_load(&s_nullmaps), (unsigned long)atomic_load(&s_commits), C.stress_sleeps,
           (unsigned long)atomic_load(&g_notifies));
    fflush(stdout);
    return 0;
}
