"""H2 -- whole-runtime harness orchestration (C04..C10)."""
import os
import shutil
import sys

sys.path.insert(0, os.path.dirname(os.path.dirname(os.path.abspath(__file__))))
import build
from lib import vlib

MODE_OF = {"C04": "c04", "C05": "c05", "C06": "c06", "C07": "c07", "C08": "c08", "C09": "c09", "C10": "c10"}

# cases per worker (16 workers): quick / thorough
SIZES = {"C04": (20, 400), "C05": (20, 300), "C06": (16, 300), "C07": (16, 300), "C08": (40, 800), "C09": (24, 400), "C10": (16, 300)}

COMMON = ("One case = one runtime instance (acquire_init .. acquire_shutdown) whose queues hold 1.2-20 frames (capacities "
          "substituted at link time), 2-8 acquisitions on mock cameras/storages from a mock driver module: frame shapes of every "
          "size residue mod 8, all sample types, 1-400 frames (or endless), burst/jitter/stalling cameras, slow/latent storages, "
          "write delays 0/0.5/5 ms, one or two streams, software triggering, zero-size frames, mid-run shape changes, a "
          "monitoring client (eager/slow/partial/holding/late-joining) and random delays injected between channel "
          "operations. Every oracle runs in every case; the scenario mix depends on the property. ")
RULES = {
    "C04": COMMON + "C04 oracle: after acquire_stop of a finite acquisition the storage log equals the camera log (ids 0..N-1, hardware "
           "ids, shape, pixel hash), per stream. Non-trivial = acquisition whose queue wrapped at least once; distinct by (scenario "
           "class, frame shape, hash of the cross-thread order of channel operations seen by the wrappers). A few cases of the "
           "abort mix (C07) run under the same oracle: the acquisition that follows an abort must be complete, too.",
    "C05": COMMON + "C05 oracle: every packet given to storage append and every region mapped by the client is walked frame by frame: "
           "8-byte aligned header, size field == align8(header+image bytes), exact chaining to the packet end, shape == the camera's "
           "shape for that frame; the fault scenarios of C09 (camera/storage failing at frame k) run under the same oracle. "
           "Non-trivial/distinct as for C04.",
    "C06": COMMON + "C06 oracle: consecutive frame ids and camera-identical pixels/hardware ids for the client, nothing of an earlier "
           "acquisition (epoch encoded in pixels and timestamps), nothing delivered after stop/abort returned, map/unmap keep "
           "succeeding across 2-8 acquisitions ended by stop or abort; storage unaffected by the client (C04 oracle).",
    "C07": COMMON + "C07 scenario: abort fired at hook-detected instants (writer asleep on a full queue, storage inside append, camera "
           "waiting for a trigger, client holding a region, just after a wrap, after natural completion, averaging with a dead filter "
           "thread) or after a random delay, from a second thread. Oracle: abort returns (hang only with a quiescence witness and "
           "after re-run), no worker alive, camera stopped, state Armed, storage got a gap-free correct prefix, the follow-up "
           "acquisition is complete and clean.",
    "C08": "Client programs of 10-60 API calls generated from the usage grammar {configure (mock or real common devices, 1-2 streams, "
           "averaging, triggering), start, stop, abort, trigger, monitor, get_state, get_configuration, nap, shutdown at any point} on "
           "queues of 6-66 kB. A recording driver automaton checks per device instance: closed exactly once by shutdown at the "
           "latest, nothing after close (instances are freed: ASan), start only when Armed, one stop per start, append only "
           "between start and stop; Running is reported only while the worker ledger (thread_create trampoline) is non-zero; "
           "Armed after stop/abort. Programs that configure or start while an acquisition is running form a separate family "
           "(their violations share one key). Distinct by hash of the call-bigram sequence.",
    "C09": COMMON + "C09 scenario: the camera's k-th get_frame or the storage's append containing frame k fails (k over the first frames "
           "and random later ones; storage returns AwaitingConfiguration/Armed/Closed), with the queue empty, half full or the "
           "writer asleep on a full queue, ended by stop or abort. Oracle: no append after the failing one, camera stopped, stop/"
           "abort return, not Running once workers exited, the next fault-free acquisition passes the C04 oracle with no stale frame.",
    "C10": COMMON + "C10 scenario: averaging k=2..8 on integer types with the sink queue holding 1.5-6 output frames. Oracle: storage "
           "(and client) get f32 frames with ids 0,k,2k..., exactly floor(N/k) checked + at most one trailing, every pixel within "
           "1 ulp of the exact mean recomputed from the camera's pixel function.",
}

KNOWN_KEYS = "late-join-sees-earlier-acquisition,while-running-misuse"


def _exe():
    return build.build_rt("asan")


def run(prop, tier, replay=None):
    chk = vlib.Check(prop, tier)
    exe = _exe()
    env = {"VERIF_KNOWN_KEYS": KNOWN_KEYS, "VERIF_PROP": prop}
    if replay:
        import json
        rec = json.load(open(replay))["replay"]
        cmd = list(rec["cmd"])
        cmd[0] = exe
        wk = vlib.Worker(cmd + ["-v"], "replay", timeout=900, env=dict(env, VERIF_LOUD="1")).run()
        sys.stdout.write(wk.out[-6000:]); sys.stderr.write(wk.err[-3000:])
        hit = [v for v in wk.records("V") if prop in v.get("props", "").split(",") and v.get("key") not in KNOWN_KEYS.split(",")]
        if hit or vlib.sanitizer_report(wk.err) or wk.rc not in (0,):
            print("VIOLATION property=%s replay=%s" % (prop, replay))
            return 1
        print("replay: no violation reproduced")
        return 0
    tmp = os.path.join(build.CACHE, "tmp", "rt-%s-%d" % (prop, os.getpid()))
    os.makedirs(tmp, exist_ok=True)
    per = SIZES[prop][0 if tier == "quick" else 1]
    sub = vlib.splitmix(chk.seed, prop) % (1 << 31)
    plan = [(MODE_OF[prop], w * per, per) for w in range(16)]
    if prop == "C08":
        # the while-running family: a few programs per process (they may leave the process in a bad state)
        nh = 16 if tier == "quick" else 400
        plan += [("c08h", i, 1) for i in range(nh)]
        # the state clause ("Running only while workers are alive") is also exercised by the fault scenarios
        nf = 6 if tier == "quick" else 120
        plan += [("c09", 500000 + w * nf, nf) for w in range(6)]
    if prop == "C04":
        # "started and then stopped" holds whatever happened on the runtime before: a few cases of the abort mix, too
        nf = 6 if tier == "quick" else 100
        plan += [("c07", 800000 + w * nf, nf) for w in range(6)]
    if prop == "C05":
        # packets must stay whole when a device fails in mid-acquisition, too (fault scenarios of C09 under the C05 oracle)
        nf = 6 if tier == "quick" else 100
        plan += [("c09", 700000 + w * nf, nf) for w in range(8)]
    if prop in ("C04", "C06") and tier == "thorough":
        plan += [("c05", 100000 + w * 60, 60) for w in range(8)]  # other scenario mixes under the same oracles
        plan += [("c10", 100000 + w * 40, 40) for w in range(8)]
    workers, hashes = [], []

    def mk(mode, first, count, idx):
        hp = os.path.join(tmp, "%d-%s-%d.hash" % (idx, mode, first))
        wk = vlib.Worker([exe, mode, sub, first, count], (mode, idx, first),
                         timeout=60 if mode == "c08h" else (5400 if tier == "thorough" else 1500),
                         env=dict(env, VERIF_HASH_OUT=hp))
        wk.case_is_args = True
        wk.span = (mode, first, count, idx)
        hashes.append(hp)
        return wk

    workers = [mk(m, f, c, i) for i, (m, f, c) in enumerate(plan)]
    all_workers, rounds = [], 0
    while workers and rounds < 4:
        rounds += 1
        vlib.run_pool(workers)
        all_workers += workers
        nxt = []
        for wk in workers:
            if wk.timed_out:
                continue
            if wk.rc not in (0, 4, 5):  # sanitizer death: resume behind the failing case (after a hang the rest is skipped)
                wit = (wk.records("X") or wk.records("A") or [{}])[-1]
                parts = str(wit.get("case", "")).split()
                if len(parts) >= 3 and parts[2].isdigit() and wk.span[0] != "c08h":
                    failed = int(parts[2])
                    mode, first, count, idx = wk.span
                    rest = first + count - (failed + 1)
                    if rest > 0 and len(nxt) < 16:
                        nxt.append(mk(mode, failed + 1, rest, idx))
        workers = nxt
    # hangs (exit 5) are believed only when they repeat from a fresh process
    hung = [wk for wk in all_workers if wk.rc == 5 and wk.span[0] != "c08h"]
    confirms = []
    for wk in hung[:4]:
        wit = (wk.records("X") or [{}])[-1]
        parts = str(wit.get("case", "")).split()
        if len(parts) >= 3:
            # a hang that depends on a narrow interleaving does not come back every time: several fresh attempts per case
            confirms += [mk(parts[0], int(parts[2]), 1, 900 + k) for k in range(8)]
    for i in range(0, len(confirms), 16):  # stop as soon as one attempt hangs again
        vlib.run_pool(confirms[i:i + 16])
        if any(c.rc == 5 for c in confirms[i:i + 16]):
            confirms = confirms[:i + 16]
            break
    if hung:
        chk.notes.append("%d hung case(s) re-run in %d fresh processes: %d hung again" % (
            min(len(hung), 4), len(confirms), sum(1 for c in confirms if c.rc == 5)))
    if hung and not any(c.rc == 5 for c in confirms):
        for wk in hung:
            wk.out = "\n".join(l for l in wk.out.splitlines() if "-hangs" not in l)
        chk.fail("%d hang(s) did not reproduce when the case was re-run in a fresh process" % len(hung))
    # the while-running family: whatever goes wrong there (including a crash of the process) is one finding class
    for wk in all_workers:
        if wk.span[0] == "c08h":
            san = vlib.sanitizer_report(wk.err)
            if san or wk.rc not in (0, 4) or wk.timed_out:
                wk.timed_out = False
                wk.out += '\nV {"props":"C08","key":"while-running-misuse","case":"%s","msg":"%s","oplog":""}\n' % (
                    " ".join(str(x) for x in wk.cmd[1:]), ("process died: %s in %s" % (san[0], san[1])) if san else "process exit %s" % wk.rc)
                wk.err = ""
                wk.rc = 0
                if not wk.records("S"):
                    wk.out += 'S {"mode":"c08h","cases":1}\n'
    summaries, _ = vlib.collect(chk, all_workers, prop, ok_rcs=(0, 4, 5),
                                san_props=lambda kind, top: {"C04", "C05", "C06", "C07", "C08", "C09", "C10"})
    tot = vlib.merge_counts(summaries, skip=("distinct",))
    distinct = len(vlib.read_hashes(hashes))
    shutil.rmtree(tmp, ignore_errors=True)
    need = {"C04": ["ring_wraps", "writer_sleeps", "two_stream_acqs", "frame_sizes_not_div8", "client_slow", "storage_frames"],
            "C05": ["ring_wraps", "frame_sizes_not_div8", "shape_change_acqs", "client_partial", "client_frames"],
            "C06": ["client_frames", "late_joins", "holds_across_end", "aborts", "stops", "client_partial", "client_hold"],
            "C07": ["aborts", "end_abort-writer-asleep", "end_abort-in-append", "end_abort-waiting-trigger", "end_abort-client-holds",
                    "end_abort-after-wrap", "end_abort-after-done"],
            "C08": ["programs", "program_calls", "device_switches", "device_events"],
            "C09": ["camera_faults", "storage_faults", "faults_with_writer_asleep"],
            "C10": ["averaging_acqs", "averaged_windows_checked", "ring_wraps"]}[prop]
    for k in need:
        if not tot.get(k):
            chk.fail("required event class never observed: %s" % k)
    chk.coverage = {"events": tot, "workers": len(all_workers)}
    chk.assumptions = [
        "queue capacities are substituted (1.2-20 frames instead of 1 GiB); everything else is the repository's code",
        "a registered monitoring client keeps polling its stream in later acquisitions and is not inside stop() while frames "
        "that do not fit into the queue are still outstanding (stop waits for completion by design)",
        "schedules are sampled (injected delays, sanitizer slow-down, hook-chosen instants), not enumerated",
        "data races on the runtime's stop/running flags are not part of these properties",
    ]
    evaluations = int(tot.get("acquisitions", 0) + tot.get("programs", 0))
    return chk.finish(evaluations, distinct, RULES[prop])


def build_jobs():
    return [lambda: build.build_rt("asan")]
