// H3 -- HAL protocol harness (C11).  See DESIGN.md section 4/H3.
//
//   hal_harness enum   <kind:cam|sto> <len> <first> <count>     bounded-exhaustive sequences
//   hal_harness random <seed> <first> <count>                    random long sequences
//
// The driver is a mock inside the harness (reached through the interposed
// device_manager_get_driver).  Device objects are exact-size heap blocks freed in close, so
// AddressSanitizer sees any later touch by the HAL.
#define _GNU_SOURCE
#include "device/hal/camera.h"
#include "device/hal/storage.h"
#include "device/hal/driver.h"
#include "device/kit/camera.h"
#include "device/kit/storage.h"
#include "device/kit/driver.h"
#include "logger.h"
#include "vcommon.h"

#include <stddef.h>
#include <unistd.h>

// ---- reporting ---------------------------------------------------------------------------
static vbuf g_log;
static const char* g_mode = "?";
static char g_casedesc[128];
static unsigned long g_nviol;
static int g_case_violated;

static void emit_violation(const char* key, const char* msg)
{
    ++g_nviol; g_case_violated = 1;
    printf("V {\"props\":\"C11\",\"key\":\"%s\",\"mode\":\"%s\",\"case\":\"%s\",\"msg\":", key, g_mode, g_casedesc);
    vjson_str(stdout, msg);
    printf(",\"oplog\":"); vjson_str(stdout, g_log.p ? g_log.p : ""); printf("}\n");
    fflush(stdout);
}
static void violation(const char* key, const char* fmt, ...)
{
    char msg[400]; va_list ap; va_start(ap, fmt); vsnprintf(msg, sizeof msg, fmt, ap); va_end(ap);
    emit_violation(key, msg);
}
// AddressSanitizer calls this before printing its report: leave the witness on stdout.
void __asan_on_error(void)
{
    printf("A {\"props\":\"C11\",\"mode\":\"%s\",\"case\":\"%s\",\"oplog\":", g_mode, g_casedesc);
    vjson_str(stdout, g_log.p ? g_log.p : ""); printf("}\n");
    fflush(stdout);
}

// ---- the mock driver ---------------------------------------------------------------------
enum { K_CAM = 0, K_STO = 1 };
struct mockdev {
    void* obj;              // the heap object handed to the HAL
    int kind, open, closes;
    // camera: a start answered Ok is outstanding and no stop/failed start since
    // storage: last state answered by the driver
    int cam_running;
    enum DeviceState sto_state;
    struct mockdev* next;
};
static struct mockdev* g_devs;
static unsigned long g_opens, g_closes, g_driver_calls, g_illegal;

// answers of the driver: three policies
//   ENUM   every driver call made during HAL call i gets the answer enumerated for step i
//   RANDOM uniform answers
//   GOOD   the protocol-following answer, with a deviation every 1/den calls
enum { POL_ENUM, POL_RANDOM, POL_GOOD };
static int g_policy, g_step_answer, g_fault_den;
static vrng g_ans_rng;
static int answer(int modulo, int natural)
{
    switch (g_policy) {
        case POL_ENUM: return g_step_answer % modulo;
        case POL_RANDOM: return (int)vrng_below(&g_ans_rng, (uint64_t)modulo);
        default: return vrng_chance(&g_ans_rng, 1, (unsigned)g_fault_den) ? (int)vrng_below(&g_ans_rng, (uint64_t)modulo) : natural;
    }
}
static int g_describe_fails, g_open_fails;
static int g_prim_called[8], g_prim_ans[8]; // per HAL call: did the driver's set/start/stop/get_frame run, and its answer

static struct mockdev* find_dev(void* obj)
{
    for (struct mockdev* d = g_devs; d; d = d->next) if (d->obj == obj && d->open) return d;
    return 0;
}
static struct mockdev* dev_of(void* obj, const char* call)
{
    ++g_driver_calls;
    struct mockdev* d = find_dev(obj);
    if (!d) {
        ++g_illegal;
        violation("driver-call-on-closed-device", "%s called on a device that is not open", call);
    }
    return d;
}

// camera interface
static enum DeviceStatusCode mc_set(struct Camera* c, struct CameraProperties* p) { (void)p;
    dev_of(c, "set"); vbuf_printf(&g_log, "<set> "); int a = answer(2, 0); g_prim_called[0] = 1; g_prim_ans[0] = a; return a ? Device_Err : Device_Ok; }
static enum DeviceStatusCode mc_get(const struct Camera* c, struct CameraProperties* p) { (void)p;
    dev_of((void*)c, "get"); return answer(2, 0) ? Device_Err : Device_Ok; }
static enum DeviceStatusCode mc_get_meta(const struct Camera* c, struct CameraPropertyMetadata* p) { (void)p;
    dev_of((void*)c, "get_meta"); return answer(2, 0) ? Device_Err : Device_Ok; }
static enum DeviceStatusCode mc_get_shape(const struct Camera* c, struct ImageShape* p) { (void)p;
    dev_of((void*)c, "get_shape"); return answer(2, 0) ? Device_Err : Device_Ok; }
static enum DeviceStatusCode mc_start(struct Camera* c)
{
    struct mockdev* d = dev_of(c, "start"); vbuf_printf(&g_log, "<start> ");
    int a = answer(2, 0);
    if (d) d->cam_running = !a;
    g_prim_called[1] = 1; g_prim_ans[1] = a;
    return a ? Device_Err : Device_Ok;
}
static enum DeviceStatusCode mc_stop(struct Camera* c)
{
    struct mockdev* d = dev_of(c, "stop"); vbuf_printf(&g_log, "<stop> ");
    if (d && !d->cam_running) { ++g_illegal; violation("camera-stop-without-start", "driver stop without an outstanding successful start"); }
    if (d) d->cam_running = 0;
    int a = answer(2, 0); g_prim_called[2] = 1; g_prim_ans[2] = a;
    return a ? Device_Err : Device_Ok;
}
static enum DeviceStatusCode mc_trigger(struct Camera* c)
{
    dev_of(c, "execute_trigger"); vbuf_printf(&g_log, "<trig> ");
    return answer(2, 0) ? Device_Err : Device_Ok;
}
static enum DeviceStatusCode mc_get_frame(struct Camera* c, void* im, size_t* n, struct ImageInfo* info)
{
    (void)im; (void)n; (void)info;
    struct mockdev* d = dev_of(c, "get_frame"); vbuf_printf(&g_log, "<frame> ");
    if (d && !d->cam_running) { ++g_illegal; violation("camera-get-frame-not-running", "driver get_frame outside the running state"); }
    int a = answer(2, 0); g_prim_called[3] = 1; g_prim_ans[3] = a;
    return a ? Device_Err : Device_Ok;
}
// storage interface
static const enum DeviceState k_states[4] = { DeviceState_Closed, DeviceState_AwaitingConfiguration,
                                               DeviceState_Armed, DeviceState_Running };
static enum DeviceState sto_answer(struct mockdev* d, int natural)
{
    enum DeviceState s = k_states[answer(4, natural)];
    if (d) d->sto_state = s;
    vbuf_printf(&g_log, "=%d ", (int)s);
    return s;
}
static enum DeviceState ms_set(struct Storage* s, const struct StorageProperties* p) { (void)p;
    struct mockdev* d = dev_of(s, "set"); vbuf_printf(&g_log, "<set> "); return sto_answer(d, 2); }
static void ms_get(const struct Storage* s, struct StorageProperties* p) { (void)p; dev_of((void*)s, "get"); }
static void ms_get_meta(const struct Storage* s, struct StoragePropertyMetadata* p) { (void)p; dev_of((void*)s, "get_meta"); }
static enum DeviceState ms_start(struct Storage* s)
{
    struct mockdev* d = dev_of(s, "start"); vbuf_printf(&g_log, "<start> "); return sto_answer(d, 3);
}
static enum DeviceState ms_append(struct Storage* s, const struct VideoFrame* f, size_t* n)
{
    (void)f; (void)n;
    struct mockdev* d = dev_of(s, "append"); vbuf_printf(&g_log, "<append> ");
    if (d && d->sto_state != DeviceState_Running) { ++g_illegal; violation("storage-append-not-running", "driver append outside the running state"); }
    return sto_answer(d, 3);
}
static enum DeviceState ms_stop(struct Storage* s)
{
    struct mockdev* d = dev_of(s, "stop"); vbuf_printf(&g_log, "<stop> ");
    if (d && d->sto_state != DeviceState_Running) { ++g_illegal; violation("storage-stop-without-start", "driver stop while the device is not running"); }
    return sto_answer(d, 2);
}
static void ms_destroy(struct Storage* s) { (void)s; }
static void ms_reserve(struct Storage* s, const struct ImageShape* sh) { (void)sh; dev_of(s, "reserve_image_shape"); }

static uint32_t md_count(struct Driver* d) { (void)d; return 2; }
static enum DeviceStatusCode md_describe(const struct Driver* d, struct DeviceIdentifier* id, uint64_t i)
{
    (void)d;
    if (g_describe_fails) return Device_Err;
    *id = (struct DeviceIdentifier){ .device_id = (uint8_t)i, .kind = i == K_CAM ? DeviceKind_Camera : DeviceKind_Storage };
    snprintf(id->name, sizeof id->name, "%s", i == K_CAM ? "mock camera" : "mock storage");
    return Device_Ok;
}
static enum DeviceStatusCode md_open(struct Driver* drv, uint64_t id, struct Device** out)
{
    (void)drv;
    if (g_open_fails) { *out = 0; return Device_Err; }
    struct mockdev* d = (struct mockdev*)calloc(1, sizeof *d);
    d->kind = (int)id; d->open = 1; d->sto_state = DeviceState_AwaitingConfiguration;
    if (id == K_CAM) {
        struct Camera* c = (struct Camera*)malloc(sizeof *c);
        memset(c, 0, sizeof *c);
        *c = (struct Camera){ .state = DeviceState_AwaitingConfiguration, .set = mc_set, .get = mc_get, .get_meta = mc_get_meta,
                              .get_shape = mc_get_shape, .start = mc_start, .stop = mc_stop,
                              .execute_trigger = mc_trigger, .get_frame = mc_get_frame };
        d->obj = c; *out = &c->device;
    } else {
        struct Storage* s = (struct Storage*)malloc(sizeof *s);
        memset(s, 0, sizeof *s);
        *s = (struct Storage){ .state = DeviceState_AwaitingConfiguration, .set = ms_set, .get = ms_get, .get_meta = ms_get_meta,
                               .start = ms_start, .append = ms_append, .stop = ms_stop, .destroy = ms_destroy,
                               .reserve_image_shape = ms_reserve };
        d->obj = s; *out = &s->device;
    }
    d->next = g_devs; g_devs = d; ++g_opens;
    vbuf_printf(&g_log, "<open> ");
    return Device_Ok;
}
static enum DeviceStatusCode md_close(struct Driver* drv, struct Device* dev)
{
    (void)drv;
    vbuf_printf(&g_log, "<close> ");
    struct mockdev* d = find_dev(dev); // device is the first member of Camera/Storage
    if (!d) { ++g_illegal; violation("close-of-closed-device", "driver close on a device that is not open"); return Device_Err; }
    if (d->kind == K_CAM && d->cam_running) { /* closing a running camera is the driver's business */ }
    d->open = 0; d->closes++; ++g_closes;
    free(d->obj); // from here on ASan reports any touch
    return Device_Ok;
}
static enum DeviceStatusCode md_shutdown(struct Driver* d) { (void)d; return Device_Ok; }
static struct Driver g_driver = { md_count, md_describe, md_open, md_close, md_shutdown };

struct Driver* __wrap_device_manager_get_driver(const struct DeviceManager* dm, const struct DeviceIdentifier* id)
{
    (void)dm; (void)id;
    return &g_driver;
}

static void devs_reset(void)
{
    while (g_devs) { struct mockdev* n = g_devs->next; if (g_devs->open) free(g_devs->obj); free(g_devs); g_devs = n; }
}

// ---- sequences ---------------------------------------------------------------------------
enum { OP_SET, OP_START, OP_STOP, OP_IO, OP_TRIG, OP_CLOSE, OP_GET, OP_META, OP_SHAPE, OP_IO_EMPTY, OP_REOPEN, OP_NOPS };
static const char* k_opname[] = { "set", "start", "stop", "io", "trigger", "close", "get", "get_meta", "shape/reserve", "io-empty", "reopen" };

static struct { unsigned long cases, hal_calls, guarded, state_checks, closes_checked; } C;
static vset g_sigs;

static uint8_t g_frames[256];

// run one sequence: ops[i], with the answer script already installed
static void run_sequence(int kind, const int* ops, const int* ans, int nops)
{
    struct DeviceManager dm = { 0 };
    struct DeviceIdentifier id = { .device_id = (uint8_t)kind, .kind = kind == K_CAM ? DeviceKind_Camera : DeviceKind_Storage };
    g_case_violated = 0;
    unsigned long opens0 = g_opens, closes0 = g_closes;
    struct Camera* cam = 0; struct Storage* sto = 0;
    enum DeviceState model = DeviceState_AwaitingConfiguration; // expected camera HAL state
    uint64_t sig = vhash_init();
    if (kind == K_CAM) cam = camera_open(&dm, &id); else sto = storage_open(&dm, &id);
    if (g_open_fails || g_describe_fails) {
        if (cam || sto) violation("open-succeeded-after-driver-failure", "open returned a device although the driver failed");
        goto Done;
    }
    if (!cam && !sto) { violation("open-failed", "open of the mock device failed"); goto Done; }
    for (int i = 0; i < nops && !g_case_violated; ++i) {
        int op = ops[i];
        unsigned long calls0 = g_driver_calls;
        if (ans) g_step_answer = ans[i];
        memset(g_prim_called, 0, sizeof g_prim_called);
        vbuf_printf(&g_log, "%s ", k_opname[op]);
        ++C.hal_calls;
        if (op == OP_REOPEN) {
            if (cam || sto) continue;
            if (kind == K_CAM) cam = camera_open(&dm, &id); else sto = storage_open(&dm, &id);
            model = DeviceState_AwaitingConfiguration;
            continue;
        }
        if (!cam && !sto) continue; // closed: nothing may be called on it (we hold no valid handle)
        if (kind == K_CAM) {
            struct CameraProperties props = { 0 }; struct CameraPropertyMetadata meta; struct ImageShape shape;
            struct ImageInfo info; size_t nbytes = sizeof g_frames;
            enum DeviceStatusCode rc;
            switch (op) {
                // The expected state follows from the answer of the driver function this HAL call is about
                // (documented Ok/Err mapping).  If the HAL did not call the driver at all (a guard), the state
                // must stay what it was.
                case OP_SET:
                    rc = camera_set(cam, &props);
                    if (g_prim_called[0]) model = g_prim_ans[0] ? DeviceState_AwaitingConfiguration : (model == DeviceState_Running ? DeviceState_Running : DeviceState_Armed);
                    break;
                case OP_START:
                    rc = camera_start(cam);
                    if (g_prim_called[1]) model = g_prim_ans[1] ? DeviceState_AwaitingConfiguration : DeviceState_Running;
                    break;
                case OP_STOP:
                    rc = camera_stop(cam);
                    if (g_prim_called[2]) model = g_prim_ans[2] ? DeviceState_AwaitingConfiguration : DeviceState_Armed;
                    break;
                case OP_IO: case OP_IO_EMPTY:
                    rc = camera_get_frame(cam, g_frames, &nbytes, &info);
                    if (g_prim_called[3]) { if (g_prim_ans[3]) model = DeviceState_AwaitingConfiguration; }
                    else if (rc == Device_Ok) violation("get-frame-ok-without-driver", "camera_get_frame returned Ok although the driver was not asked");
                    break;
                case OP_TRIG: camera_execute_trigger(cam); break;
                case OP_GET: camera_get(cam, &props); break;
                case OP_META: camera_get_meta(cam, &meta); break;
                case OP_SHAPE: camera_get_image_shape(cam, &shape); break;
                case OP_CLOSE: camera_close(cam); cam = 0; break;
            }
            if (cam) {
                ++C.state_checks;
                enum DeviceState got = camera_get_state(cam);
                if (got != model)
                    violation("camera-state-mismatch", "after %s: HAL reports %s, the driver's answers imply %s", k_opname[op],
                              device_state_as_string(got), device_state_as_string(model));
                sig = vhash_add(sig, (uint64_t)op * 8 + (uint64_t)got);
            }
        } else {
            struct StorageProperties props = { 0 }; struct StoragePropertyMetadata meta; struct ImageShape shape = { 0 };
            struct mockdev* d = find_dev(sto);
            switch (op) {
                case OP_SET: storage_set(sto, &props); break;
                case OP_START: storage_start(sto); break;
                case OP_STOP: storage_stop(sto); break;
                case OP_IO: storage_append(sto, (struct VideoFrame*)g_frames, (struct VideoFrame*)(g_frames + 128)); break;
                case OP_IO_EMPTY: storage_append(sto, (struct VideoFrame*)g_frames, (struct VideoFrame*)g_frames); break;
                case OP_TRIG: storage_reserve_image_shape(sto, &shape); break;
                case OP_GET: storage_get(sto, &props); break;
                case OP_META: storage_get_meta(sto, &meta); break;
                case OP_SHAPE: storage_reserve_image_shape(sto, &shape); break;
                case OP_CLOSE: storage_close(sto); sto = 0; break;
            }
            if (sto && d) {
                ++C.state_checks;
                enum DeviceState got = storage_get_state(sto);
                if (got != d->sto_state)
                    violation("storage-state-mismatch", "after %s: HAL reports %s, the driver last answered %s", k_opname[op],
                              device_state_as_string(got), device_state_as_string(d->sto_state));
                sig = vhash_add(sig, (uint64_t)op * 8 + (uint64_t)got);
            }
        }
        if (g_driver_calls == calls0 && op <= OP_TRIG) ++C.guarded;
    }
    if (cam) { vbuf_printf(&g_log, "close "); camera_close(cam); cam = 0; }
    if (sto) { vbuf_printf(&g_log, "close "); storage_close(sto); sto = 0; }
Done:
    ++C.closes_checked;
    if (g_opens - opens0 != g_closes - closes0)
        violation("open-close-imbalance", "%lu opens but %lu closes in this sequence", g_opens - opens0, g_closes - closes0);
    for (struct mockdev* d = g_devs; d; d = d->next)
        if (d->closes > 1) violation("double-close", "a device was closed %d times", d->closes);
    devs_reset();
    vset_add(&g_sigs, sig);
    ++C.cases;
}

static void quiet(int e, const char* f, int l, const char* fn, const char* m) { (void)e; (void)f; (void)l; (void)fn; (void)m; }

int main(int argc, char** argv)
{
    if (argc < 5) { fprintf(stderr, "usage\n"); return 2; }
    logger_set_reporter(quiet);
    setvbuf(stdout, 0, _IOFBF, 1 << 16);
    vset_init(&g_sigs, 1 << 12);
    g_mode = argv[1];
    int sample_every = 0;
    if (!strcmp(g_mode, "enum")) {
        // choices per step: camera {set,start,stop,frame,trigger}x{Ok,Err} + close = 11
        //                   storage {set,start,stop,append}x4 states + close = 17
        int kind = !strcmp(argv[2], "cam") ? K_CAM : K_STO;
        int len = atoi(argv[3]);
        unsigned long long first = strtoull(argv[4], 0, 10), count = argc > 5 ? strtoull(argv[5], 0, 10) : 0;
        int base = kind == K_CAM ? 11 : 17;
        unsigned long long total = 1; for (int i = 0; i < len; ++i) total *= (unsigned long long)base;
        if (!count || first + count > total) count = total > first ? total - first : 0;
        for (unsigned long long idx = first; idx < first + count; ++idx) {
            int ops[16], ans[16];
            unsigned long long x = idx;
            for (int i = 0; i < len; ++i) {
                int c = (int)(x % (unsigned long long)base); x /= (unsigned long long)base;
                if (c == base - 1) { ops[i] = OP_CLOSE; ans[i] = 0; }
                else if (kind == K_CAM) { ops[i] = c / 2; ans[i] = c % 2; }
                else { ops[i] = c / 4; ans[i] = c % 4; }
            }
            snprintf(g_casedesc, sizeof g_casedesc, "enum %s %d %llu 1", argv[2], len, idx);
            vbuf_reset(&g_log);
            g_describe_fails = g_open_fails = 0;
            g_policy = POL_ENUM; g_step_answer = 0;
            run_sequence(kind, ops, ans, len);
            if (sample_every++ % 50021 == 0 && !g_case_violated) {
                printf("H {\"mode\":\"enum\",\"case\":\"%s\",\"oplog\":", g_casedesc); vjson_str(stdout, g_log.p); printf("}\n");
            }
            if (g_nviol > 20) break;
        }
    } else if (!strcmp(g_mode, "random")) {
        uint64_t seed = strtoull(argv[2], 0, 10);
        unsigned long first = strtoul(argv[3], 0, 10), count = strtoul(argv[4], 0, 10);
        for (unsigned long c = first; c < first + count; ++c) {
            vrng g; vrng_seed(&g, seed, 0x11, c);
            int kind = (int)vrng_below(&g, 2);
            int nops = (int)vrng_range(&g, 1, 60);
            int ops[64];
            for (int i = 0; i < nops; ++i) {
                unsigned x = (unsigned)vrng_below(&g, 100);
                ops[i] = x < 14 ? OP_SET : x < 30 ? OP_START : x < 44 ? OP_STOP : x < 64 ? OP_IO : x < 70 ? OP_TRIG :
                         x < 75 ? OP_CLOSE : x < 79 ? OP_GET : x < 82 ? OP_META : x < 86 ? OP_SHAPE : x < 90 ? OP_IO_EMPTY : OP_REOPEN;
            }
            int okbias = (int)vrng_below(&g, 3); // 0: uniform answers, 1: mostly protocol-following, 2: rare faults
            g_policy = okbias ? POL_GOOD : POL_RANDOM; g_fault_den = okbias == 1 ? 5 : 15;
            vrng_seed(&g_ans_rng, seed, 0x12, c);
            g_describe_fails = vrng_chance(&g, 1, 40); g_open_fails = !g_describe_fails && vrng_chance(&g, 1, 40);
            snprintf(g_casedesc, sizeof g_casedesc, "random %llu %lu 1", (unsigned long long)seed, c);
            vbuf_reset(&g_log);
            vbuf_printf(&g_log, "%s%s%s| ", kind == K_CAM ? "cam " : "sto ", g_describe_fails ? "describe-fails " : "", g_open_fails ? "open-fails " : "");
            run_sequence(kind, ops, 0, nops);
            if (c % 4999 == 0 && !g_case_violated) {
                printf("H {\"mode\":\"random\",\"case\":\"%s\",\"oplog\":", g_casedesc); vjson_str(stdout, g_log.p); printf("}\n");
            }
            if (g_nviol > 20) break;
        }
    } else return 2;
    printf("S {\"mode\":\"%s\",\"cases\":%lu,\"violations\":%lu,\"hal_calls\":%lu,\"driver_calls\":%lu,\"guarded_calls\":%lu,"
           "\"state_checks\":%lu,\"opens\":%lu,\"closes\":%lu,\"distinct_state_traces\":%zu}\n",
           g_mode, C.cases, g_nviol, C.hal_calls, g_driver_calls, C.guarded, C.state_checks, g_opens, g_closes, g_sigs.n);
    const char* hp = getenv("VERIF_HASH_OUT");
    if (hp) vset_dump(&g_sigs, hp);
    fflush(stdout);
    return 0;
}

