// Shared between the whole-runtime harness (H2) and its mock driver module.
// The mock driver is built as libacquire-driver-hdcam.so (an optional driver name the device
// manager already probes); the harness reaches this control block with dlopen+dlsym("rtm").
#ifndef VERIF_RT_MOCK_H
#define VERIF_RT_MOCK_H

#include <pthread.h>
#include <stdatomic.h>
#include <stddef.h>
#include <stdint.h>

#define RTM_NDEV 3 // mock cameras / storages per kind

enum rtm_op {
    RTM_OPEN = 1, RTM_CLOSE, RTM_SET, RTM_START, RTM_STOP, RTM_GET_FRAME, RTM_APPEND, RTM_TRIGGER, RTM_GET, RTM_SHUTDOWN,
    RTM_RESERVE, RTM_GET_SHAPE
};

struct rtm_event {
    uint8_t is_storage, dev;
    uint16_t op;
    uint32_t instance;   // per-open instance number
    int32_t hal_state;   // HAL state field of the device object at call time
    int32_t result;      // status / state returned
    int64_t arg;         // frames in an append, hw id of a frame, ...
    uint64_t seq;
};

struct rtm_frame { // one frame as delivered by a camera or received by a storage
    uint64_t frame_id, hw_id, pixhash, epoch_hint;
    uint32_t w, h; int32_t type;
    uint64_t bytes_of_frame, ts_hw;
    uintptr_t addr;      // header address (alignment check)
    uint32_t packet;     // append index (storage) / call index (camera)
    uint32_t start_no;   // which start of the device this belongs to
    uint8_t* pixels;     // copy of the pixel bytes when 'keep_pixels' is set
    size_t npix_bytes;
    int structural_error; // C05: 1 misaligned, 2 size field wrong, 3 overshoot
};

struct rtm_cam_cfg {
    int pace_min_us, pace_max_us; // sleep before delivering a frame
    int stall_every, stall_us;    // an extra long pause every k frames
    long fail_at_call;            // get_frame call index (per start) that returns Device_Err; -1 never
    int zero_every;               // every k-th call returns *nbytes = 0 (no frame); 0 never
    int shape_change_every;       // switch to the alternative shape every k frames; 0 never
    uint32_t alt_w, alt_h;
    int set_fails, start_fails;
    int keep_pixels;
    int stop_us;                  // latency of stop()
    int trigger_us;               // execute_trigger returns this long after it has delivered the trigger
};
struct rtm_sto_cfg {
    int append_min_us, append_max_us; // latency of one append
    long slow_until_frame;            // extra latency until this many frames were received
    int slow_us;
    long fail_at_frame;               // the append containing this frame index (per start) fails; -1 never
    int fail_state;                   // DeviceState returned by the failing append
    int set_fails, start_fails;
    int keep_pixels;
    int stop_us;                      // latency of stop()
};

struct rtm_cam {
    struct rtm_cam_cfg cfg;
    _Atomic long epoch, calls, frames, opens, closes, starts, stops, sets, triggers;
    _Atomic int waiting_trigger, in_get_frame, live_instances;
    struct rtm_frame* log; size_t nlog, caplog;
};
struct rtm_sto {
    struct rtm_sto_cfg cfg;
    _Atomic long appends, frames, opens, closes, starts, stops, sets;
    _Atomic int in_append, live_instances;
    struct rtm_frame* log; size_t nlog, caplog;
};

struct rtm_ctl {
    pthread_mutex_t mu;           // protects logs and events
    struct rtm_cam cam[RTM_NDEV];
    struct rtm_sto sto[RTM_NDEV];
    struct rtm_event* events; size_t nevents, capevents;
    _Atomic uint64_t seq;
    uint64_t prf_key;
    _Atomic int shutdowns;
    _Atomic uint64_t activity;    // bumped by every device call (quiescence detection)
};

// pixel function of the mock cameras: a stale, foreign or altered frame is recognisable
static inline uint8_t rtm_pixel(uint64_t key, unsigned dev, uint64_t epoch, uint64_t hw_id, uint64_t i)
{
    uint64_t x = key ^ (dev * 0x9E3779B97F4A7C15ULL) ^ (epoch * 0xC2B2AE3D27D4EB4FULL) ^ (hw_id * 0x165667B19E3779F9ULL);
    x += (i >> 3) * 0xD6E8FEB86659FD93ULL;
    x ^= x >> 32; x *= 0xD6E8FEB86659FD93ULL; x ^= x >> 29; x *= 0x9E3779B97F4A7C15ULL; x ^= x >> 32;
    return (uint8_t)(x >> (8 * (i & 7)));
}
static inline uint64_t rtm_hash_bytes(const uint8_t* p, size_t n)
{
    uint64_t h = 0xcbf29ce484222325ULL;
    for (size_t i = 0; i < n; ++i) { h ^= p[i]; h *= 0x100000001b3ULL; }
    return h;
}

#endif
