"""H4 -- device manager / loader harness orchestration (C12)."""
import json
import os
import random
import re
import shutil
import sys

sys.path.insert(0, os.path.dirname(os.path.dirname(os.path.abspath(__file__))))
import build
from lib import vlib

OPTIONAL = ["acquire-driver-hdcam", "acquire-driver-zarr", "acquire-driver-egrabber",
            "acquire-driver-spinnaker", "acquire-driver-pvcam"]
DEFAULT_VARIANT = dict(zip(OPTIONAL, ["mock1", "mock2", "mock3", "mock4", "mock5"]))
KINDS = {"None": 0, "Camera": 1, "Storage": 2, "StageAxis": 3, "Signals": 4, "Count": 5, "Unknown": 6}

RULE = ("one child process per layout of driver libraries next to a copy of the harness executable (presence subsets of the "
        "common driver + 5 optional names filled with mock drivers exposing duplicate / mixed-case / metacharacter / empty / "
        "255-byte device names, a driver whose describe() fails for one index, and broken libraries: not ELF, no entry "
        "point, init returning NULL). Inputs per layout: (i) patterns from a regex grammar whose whole-match semantics are "
        "language membership, reference = python re.fullmatch(IGNORECASE|ASCII) over the enumerated names; (ii) escaped "
        "device names in random case; (iii) NUL-padded names, random bytes <=255 and malformed regexes (oracle: Ok/Err, an "
        "Ok result is an enumerated identifier of the requested kind, no crash; exact-size heap copies so over-reads are "
        "ASan reports); (iv) every DeviceKind value and out-of-range integers, NULL/zero-length combinations, select_first/"
        "select_default, indices 0..count+3 and UINT32_MAX; opening every enumerated camera/storage identifier must give "
        "the enumerated kind and name; (v) one select in five is issued again right away and must give the same answer "
        "(selection is a function of kind and pattern on a fixed device set). Non-trivial = select input that matched a device or hit a metacharacter/duplicate "
        "name; distinct by (layout, input).")

SPECIAL = set("^$\\.*+?()[]{}|")


def esc(name):
    return "".join("\\" + c if c in SPECIAL else c for c in name)


def randcase(rng, s):
    return "".join(c.upper() if rng.random() < 0.5 else c.lower() for c in s)


def gen_pattern(rng, names):
    """Regex over a restricted grammar on which ECMAScript and python agree (<= 80 chars)."""
    def atom(depth):
        r = rng.random()
        if r < 0.45:
            return esc(rng.choice("abcdefgimnorstuwxz:- 01"))
        if r < 0.6:
            return "."
        if r < 0.72:
            lo = rng.choice("abcdefghijklm")
            hi = chr(min(ord("z"), ord(lo) + rng.randint(0, 12)))
            neg = "^" if rng.random() < 0.25 else ""
            extra = rng.choice(["", "0-9", " ", ":"])
            return "[%s%s-%s%s]" % (neg, lo, hi, extra)
        if r < 0.8:
            return rng.choice(["\\d", "\\w", "\\s", "\\W", "\\."])
        if depth < 2 and r < 0.95:
            inner = "|".join(seq(depth + 1, 3) for _ in range(rng.randint(1, 3)))
            return "(" + inner + ")"
        return esc(rng.choice("abcdefgimnorstuwxz"))

    def seq(depth, maxlen):
        out = []
        for _ in range(rng.randint(1, maxlen)):
            a = atom(depth)
            q = ""
            # never quantify a group that already contains a quantifier (exponential backtracking)
            if rng.random() < 0.35:
                if a.startswith("("):
                    # groups only get small bounded repetition: "(.|.x)+" style ambiguity is exponential
                    # for backtracking matchers (libstdc++ and python alike) on a 255-byte name
                    q = "" if any(ch in a for ch in "*+{") else rng.choice(["?", "{0,2}", "{1,3}", "{2}"])
                else:
                    q = rng.choice(["*", "+", "?", "{0,2}", "{1,3}", "{2}", "*?"])
            out.append(a + q)
        return "".join(out)

    r = rng.random()
    if names and r < 0.5:
        # derive from a real name: keep a prefix/suffix literally, generalise the rest
        n = rng.choice(names)
        if len(n) > 40:
            return esc(n[:3]) + ".*" + esc(n[-2:])
        cut = rng.randint(0, len(n))
        mid = rng.choice([".*", ".+", "[a-z ]*", "(.|x){0,3}.*", ".{0,%d}" % (len(n) + 2)])
        if rng.random() < 0.5:
            return randcase(rng, esc(n[:cut])) + mid
        return mid + randcase(rng, esc(n[cut:]))
    for _ in range(20):
        p = seq(0, 5)
        if len(p) <= 80:
            return p
    return "a"


def make_layout(exe, libs, root, tag, common, assignment):
    d = os.path.join(root, tag)
    os.makedirs(d)
    tgt = os.path.join(d, "dm_harness")
    try:
        os.link(exe, tgt)
    except OSError:
        shutil.copy2(exe, tgt)
    if common:
        os.link(libs["common"], os.path.join(d, "libacquire-driver-common.so"))
    for name, what in assignment.items():
        p = os.path.join(d, "lib%s.so" % name)
        if what is None:
            continue
        if what == "notelf":
            with open(p, "w") as fh:
                fh.write("this is not a shared library\n")
        else:
            os.link(libs[what], p)
    return d, tgt


def gen_commands(rng, enum_names_by_kind, count, n_inputs):
    """Returns list of (line, meta)."""
    cmds = []
    all_names = sorted({n for ns in enum_names_by_kind.values() for n in ns})
    kinds_present = [k for k in enum_names_by_kind if enum_names_by_kind[k]]
    for _ in range(n_inputs):
        r = rng.random()
        kind = rng.choice([1, 1, 2, 2, 2, 1, 3, 4]) if rng.random() < 0.9 else rng.choice([0, 5, 6, 7, -1, 100, 255, 1 << 20])
        if r < 0.45:
            pat = gen_pattern(rng, all_names)
            try:
                cre = re.compile(pat, re.IGNORECASE | re.ASCII)
            except re.error:
                continue
            cmds.append(("S %d %s" % (kind, pat.encode().hex() or "-"), {"class": "grammar", "kind": kind, "re": cre, "pat": pat}))
        elif r < 0.65 and all_names:
            n = rng.choice(all_names)
            pat = randcase(rng, esc(n))
            if len(pat.encode()) > 255:
                # a 255-byte name cannot be escaped within 255 bytes if it had metacharacters; ours has none
                pat = pat[:255]
            cmds.append(("S %d %s" % (kind, pat.encode().hex() or "-"),
                         {"class": "name", "kind": kind, "re": re.compile(pat, re.IGNORECASE | re.ASCII) if pat else None, "pat": pat}))
        elif r < 0.72 and all_names:
            n = rng.choice([x for x in all_names if len(x) < 200] or [""])
            pad = rng.randint(1, 8)
            raw = randcase(rng, esc(n)).encode() + b"\0" * pad
            cmds.append(("S %d %s" % (kind, raw.hex()), {"class": "nulpad", "kind": kind,
                                                         "re": re.compile(esc(n), re.IGNORECASE | re.ASCII) if n else None, "pat": esc(n)}))
        elif r < 0.9:
            ln = rng.choice([1, 2, 3, 8, 40, 255, rng.randint(1, 255)])
            sel = rng.random()
            if sel < 0.4:
                for _ in range(50):
                    raw = bytes(rng.randrange(256) for _ in range(ln))
                    if sum(raw.count(c) for c in b"*+{") <= 1:
                        break
                else:
                    raw = b"\xff\x00\x01"
            elif sel < 0.7:
                # random metacharacter soup; at most one unbounded quantifier, so that libstdc++'s
                # backtracking matcher cannot be driven into exponential time on a 255-byte name
                # (nested quantifiers like ".*+" are accepted by std::regex and never finish)
                for _ in range(50):
                    raw = "".join(rng.choice("()[]{}*+?|\\^$.ab-") for _ in range(ln)).encode()
                    if sum(raw.count(c) for c in b"*+{") <= 1:
                        break
                else:
                    raw = b"(a|b)[ab]\\"
            else:
                raw = rng.choice([b"(", b"[a-", b"a{2,1}", b"*a", b"\\", b"(?<=a)b", b"[[:alpha:]]+", b"a{99999}", b"((((((((((a))))))))))",
                                  b"\\1", b"(a)\\1", b"[z-a]", b"a{,", b"\x00abc", b"ab\x00cd", b"\xff\xfe", b"(?:a|b)*", b"x{3,2}"])
            cmds.append(("S %d %s" % (kind, raw[:255].hex()), {"class": "raw", "kind": kind}))
        elif r < 0.93:
            cmds.append(("N %d %d" % (kind, rng.choice([0, 0, 1, 5, 255])), {"class": "nullname", "kind": kind}))
        elif r < 0.96:
            cmds.append(("%s %d" % (rng.choice("FD"), kind), {"class": "first-default", "kind": kind}))
        else:
            idx = rng.choice([count, count + 1, count + 3, 0xFFFFFFFF, rng.randint(0, max(0, count - 1))])
            cmds.append(("G %d" % idx, {"class": "index", "index": idx}))
        # selection is a function of (kind, pattern) on a fixed set of devices: the same call again, right away,
        # must give the same answer (whatever the pattern is, well-formed or not)
        if cmds and cmds[-1][0][0] == "S" and cmds[-1][1]["class"] != "repeat" and rng.random() < 0.2:
            cmds.append((cmds[-1][0], {"class": "repeat", "kind": cmds[-1][1]["kind"]}))
    return cmds


def expected_select(enum, kind, cre, empty):
    for e in enum:
        if e is None or e["kind"] != kind:
            continue
        if empty or (cre is not None and cre.fullmatch(e["name"]) is not None):
            return e
    return None


def run(prop, tier, replay=None):
    chk = vlib.Check(prop, tier)
    exe, libs = build.build_dm("asan")
    root = os.path.join(build.CACHE, "tmp", "dm-%d" % os.getpid())
    shutil.rmtree(root, ignore_errors=True)
    os.makedirs(root)
    rng = random.Random(chk.seed * 7919 + 13)
    if replay:
        rec = json.load(open(replay))["replay"]
        layouts = [(rec["layout"]["tag"], rec["layout"]["common"], rec["layout"]["assignment"])]
        fixed_cmds = rec["commands"]
    else:
        fixed_cmds = None
        layouts = [("full", True, dict(DEFAULT_VARIANT)), ("none", False, {n: None for n in OPTIONAL}),
                   ("common-only", True, {n: None for n in OPTIONAL})]
        # presence subsets
        masks = list(range(64)) if tier == "thorough" else rng.sample(range(64), 6)
        for m in masks:
            asg = {n: (DEFAULT_VARIANT[n] if (m >> i) & 1 else None) for i, n in enumerate(OPTIONAL)}
            layouts.append(("subset%02d" % m, bool((m >> 5) & 1), asg))
        # broken libraries and shuffled variants
        for i in range(8 if tier == "thorough" else 3):
            asg = {}
            for n in OPTIONAL:
                asg[n] = rng.choice(["mock1", "mock2", "mock3", "mock4", "mock5", "mock6", "mock7", "notelf", None])
            layouts.append(("broken%d" % i, rng.random() < 0.8, asg))
    n_inputs = 2500 if tier == "quick" else 25000
    # pass 1: enumerate every layout (G 0..count+3, open everything)
    jobs = []
    for tag, common, asg in layouts:
        d, tgt = make_layout(exe, libs, root, tag, common, asg)
        jobs.append({"tag": tag, "common": common, "assignment": asg, "dir": d, "exe": tgt})
    evaluations = 0
    nontrivial = set()
    classes = {}
    for job in jobs:
        # enumeration run
        with open(os.path.join(job["dir"], "enum.cmd"), "w") as fh:
            fh.write("C\n" + "".join("G %d\n" % i for i in range(0, 80)))
        wk = vlib.Worker([job["exe"], "enum.cmd"], (job["tag"], "enum"), timeout=300, cwd=job["dir"]).run()
        if _died(chk, wk, job, ["C"] + ["G %d" % i for i in range(80)]):
            continue
        init = wk.records("I")[0]
        count = init["count"]
        enum = []
        for g in wk.records("G"):
            if g["i"] >= count:
                if g["status"] == 0:
                    chk.violation("index-out-of-range-accepted", "device_manager_get(%d) returned Ok with only %d devices" % (g["i"], count),
                                  _rep(job, ["G %d" % g["i"]]))
                continue
            enum.append({"driver_id": g["driver_id"], "device_id": g["device_id"], "kind": g["kind"],
                         "name": bytes.fromhex(g["name_hex"]).decode("latin-1")} if g["status"] == 0 else None)
        job["enum"], job["count"] = enum, count
        by_kind = {}
        for e in enum:
            if e:
                by_kind.setdefault(e["kind"], []).append(e["name"])
        if fixed_cmds is not None:
            cmds = [(c, {"class": "repeat" if i and c[0] == "S" and fixed_cmds[i - 1] == c else "replay", "kind": 0})
                    for i, c in enumerate(fixed_cmds)]
        else:
            cmds = gen_commands(rng, by_kind, count, n_inputs)
            cmds += [("O %d" % i, {"class": "open", "index": i}) for i in range(count)]
            for k in (-1, 0, 1, 2, 3, 4, 5, 6, 7, 255):
                cmds.append(("S %d -" % k, {"class": "emptypattern", "kind": k}))
                cmds.append(("F %d" % k, {"class": "first-default", "kind": k}))
                cmds.append(("D %d" % k, {"class": "first-default", "kind": k}))
        job["cmds"] = cmds
        with open(os.path.join(job["dir"], "run.cmd"), "w") as fh:
            fh.write("\n".join(c for c, _ in cmds) + "\n")
    live = [j for j in jobs if "cmds" in j]
    workers = [vlib.Worker([j["exe"], "run.cmd"], (j["tag"], "run"), timeout=1200, cwd=j["dir"]) for j in live]
    vlib.run_pool(workers)
    for job, wk in zip(live, workers):
        cmds = job["cmds"]
        if _died(chk, wk, job, [c for c, _ in cmds]):
            continue
        enum = job["enum"]
        valid = {(e["driver_id"], e["device_id"], e["kind"], e["name"]) for e in enum if e}
        results = {}
        for line in wk.out.splitlines():
            if line[:2] in ("R ", "G ", "O ") and line[2:3] == "{":
                try:
                    r = json.loads(line[2:])
                    results[r["n"]] = r
                except ValueError:
                    pass
        for n, (cmd, meta) in enumerate(cmds, 1):
            r = results.get(n)
            evaluations += 1
            cls = meta["class"]
            classes[cls] = classes.get(cls, 0) + 1
            if r is None:
                chk.fail("no result for command %d (%s) in layout %s" % (n, cmd[:60], job["tag"]))
                break
            got = None
            if r.get("status") == 0 and "kind" in r:
                got = (r["driver_id"], r["device_id"], r["kind"], bytes.fromhex(r["name_hex"]).decode("latin-1"))
            if cls in ("grammar", "name", "emptypattern"):
                empty = cls == "emptypattern" or meta.get("pat") == ""
                exp = expected_select(enum, meta["kind"], meta.get("re"), empty)
                expt = (exp["driver_id"], exp["device_id"], exp["kind"], exp["name"]) if exp else None
                if got != expt:
                    chk.violation("select-disagrees-with-enumeration:" + cls,
                                  "kind %d pattern %r: got %r, the first enumerated whole-name match is %r" % (meta["kind"], meta.get("pat", ""), got, expt),
                                  _rep(job, [cmd]))
                if exp is not None:
                    nontrivial.add((job["tag"], cmd))
            elif cls == "repeat":
                prev = results.get(n - 1)
                pgot = None
                if prev is not None and prev.get("status") == 0 and "kind" in prev:
                    pgot = (prev["driver_id"], prev["device_id"], prev["kind"], bytes.fromhex(prev["name_hex"]).decode("latin-1"))
                if prev is not None and (prev.get("status") != r.get("status") or pgot != got):
                    chk.violation("select-not-repeatable", "the same select (%s) issued twice in a row: first status %s %r, then status %s %r"
                                  % (cmd[:80], prev.get("status"), pgot, r.get("status"), got), _rep(job, [c for c, _ in cmds[max(0, n - 50):n]]))
                nontrivial.add((job["tag"], "repeat", cmd))
            elif cls == "nulpad":
                exp = expected_select(enum, meta["kind"], meta.get("re"), meta.get("pat") == "")
                expt = (exp["driver_id"], exp["device_id"], exp["kind"], exp["name"]) if exp else None
                if got is not None and got != expt:
                    chk.violation("select-disagrees-with-enumeration:nulpad", "NUL-padded %r: got %r expected %r or an error" % (meta["pat"], got, expt),
                                  _rep(job, [cmd]))
                nontrivial.add((job["tag"], cmd))
            elif cls in ("raw", "nullname", "first-default", "replay"):
                if cmd[0] in "SNFD" and got is not None:
                    k = int(cmd.split()[1])
                    if got not in valid or got[2] != k:
                        chk.violation("select-returned-unenumerated-device", "%s returned %r which is not an enumerated device of kind %d" % (cmd[:80], got, k),
                                      _rep(job, [cmd]))
                if cls == "nullname":
                    k, ln = int(cmd.split()[1]), int(cmd.split()[2])
                    if ln > 0 and r["status"] == 0:
                        chk.violation("null-name-with-length-accepted", "select(name=NULL, bytes_of_name=%d) returned Ok" % ln, _rep(job, [cmd]))
                    if ln == 0:
                        exp = expected_select(enum, k, None, True)
                        expt = (exp["driver_id"], exp["device_id"], exp["kind"], exp["name"]) if exp else None
                        if got != expt:
                            chk.violation("select-disagrees-with-enumeration:first", "select(NULL,0) kind %d: got %r expected %r" % (k, got, expt), _rep(job, [cmd]))
                if cls == "first-default":
                    k = int(cmd.split()[1])
                    if cmd[0] == "F":
                        exp = expected_select(enum, k, None, True)
                    elif k == 1:
                        exp = expected_select(enum, 1, re.compile(".*random.*", re.I), False)
                    elif k == 2:
                        exp = expected_select(enum, 2, re.compile("trash", re.I), False)
                    else:
                        exp = None
                    expt = (exp["driver_id"], exp["device_id"], exp["kind"], exp["name"]) if exp else None
                    if got != expt:
                        chk.violation("select-disagrees-with-enumeration:first-default", "%s: got %r expected %r" % (cmd, got, expt), _rep(job, [cmd]))
            elif cls == "index":
                idx = meta["index"]
                if idx >= job["count"] and r["status"] == 0:
                    chk.violation("index-out-of-range-accepted", "device_manager_get(%d) Ok with %d devices" % (idx, job["count"]), _rep(job, [cmd]))
            elif cls == "open":
                e = enum[meta["index"]]
                if e is None:
                    continue
                if e["kind"] in (1, 2):
                    if r.get("opened") != 1:
                        chk.violation("open-of-enumerated-device-failed", "opening enumerated %r failed" % (e,), _rep(job, [cmd]))
                    else:
                        nm = bytes.fromhex(r["name_hex"]).decode("latin-1")
                        if r["kind"] != e["kind"] or nm != e["name"]:
                            chk.violation("opened-device-differs-from-enumeration", "enumerated %r, opened kind %d name %r" % (e, r["kind"], nm), _rep(job, [cmd]))
                    nontrivial.add((job["tag"], cmd))
        if len(chk.samples) < 5 and cmds:
            s = [c for c, m in cmds if m["class"] == "grammar"][:3]
            chk.samples.append({"layout": job["tag"], "common": job["common"], "assignment": job["assignment"],
                                "devices": job["count"], "inputs": [bytes.fromhex(x.split()[2]).decode("latin-1") if x.split()[2] != "-" else "" for x in s]})
    shutil.rmtree(root, ignore_errors=True)
    chk.coverage = {"events": {"layouts": len(jobs), "inputs_by_class": classes,
                               "devices_per_layout": {j["tag"]: j.get("count") for j in jobs}}}
    chk.assumptions = ["patterns of class (i) stay inside a grammar on which ECMAScript and python regex semantics agree "
                       "(no back-references, look-around, POSIX classes, case-crossing ranges, nested quantified groups)",
                       "a device whose describe() fails is 'not enumerated' (device_manager_get reports an error for it)"]
    if replay:
        if chk.violations:
            print("VIOLATION property=C12 replay=%s" % replay)
            return 1
        print("replay: no violation reproduced")
        return 0
    if not classes.get("grammar"):
        chk.fail("no grammar inputs were generated")
    return chk.finish(evaluations, len(nontrivial), RULE)


def _rep(job, cmds):
    return {"layout": {"tag": job["tag"], "common": job["common"], "assignment": job["assignment"]}, "commands": cmds[-50:],
            "cmd": ["dm_harness", "<command-file>"]}


def _died(chk, wk, job, cmds):
    """Child killed / sanitizer report / missing trailer => violation (crash class)."""
    san = vlib.sanitizer_report(wk.err)
    last = 0
    for line in wk.out.splitlines():
        if line.startswith("P "):
            last = int(line[2:])
    culprit = cmds[last - 1:last] if last else cmds[:1]
    if san:
        kind, top, excerpt = san
        chk.violation("%s:%s" % (kind, top), "%s in %s at command %r (layout %s)" % (kind, top, culprit, job["tag"]),
                      dict(_rep(job, culprit), report=excerpt[:2500]))
        return True
    if wk.timed_out:
        chk.fail("layout %s timed out at command %r" % (job["tag"], culprit))
        return True
    if wk.rc != 0 or not wk.records("Z"):
        chk.violation("crash:rc%s" % wk.rc, "child died (rc=%s) at command %r in layout %s: %s" % (wk.rc, culprit, job["tag"], wk.err[-300:]),
                      _rep(job, culprit))
        return True
    return False


def build_jobs():
    return [lambda: build.build_dm("asan")]
